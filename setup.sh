#!/bin/sh
# Run once after a fresh restore, offline: build the conformance harness and the repository's
# binaries from /repo's working tree and parse every specification module.
set -e
cd "$(dirname "$0")"
export CARGO_NET_OFFLINE=true
mkdir -p work evidence replays target
(cd harness && cargo build --offline)
(cd /repo && CARGO_PROFILE_DEV_OPT_LEVEL=2 CARGO_PROFILE_DEV_DEBUG=false cargo build --offline --workspace --bins --target-dir /verif/target/repo)
rm -rf work/sany && mkdir -p work/sany && cp spec/*.tla work/sany/
cd work/sany
for f in *.tla; do
  java -cp /opt/veriftools/tla/tla2tools.jar:/opt/veriftools/tla/CommunityModules-deps.jar tla2sany.SANY "$f" > "$f.sany" 2>&1 || { cat "$f.sany"; exit 1; }
  if grep -q "\*\*\* Errors\|Fatal errors\|Could not" "$f.sany"; then cat "$f.sany"; exit 1; fi
done
echo "setup ok"
