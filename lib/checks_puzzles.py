"""C15-C18: the four generators against Puzzles.tla."""
import itertools
import json
import os
import random
import re
import subprocess
from concurrent.futures import ThreadPoolExecutor

from vlib import *


def run_gen(name, args, stdin=None, timeout=120):
    build_repo_bins()
    try:
        p = subprocess.run([repo_bin(name)] + args, input=stdin, stdout=subprocess.PIPE, stderr=subprocess.PIPE, timeout=timeout)
        return p.returncode, p.stdout, p.stderr
    except subprocess.TimeoutExpired:
        return -999, b"", b""


_io_counter = [0]


def run_gen_files(name, args, stdin, out_flag=None):
    """the same call through the file channel: INPUT and OUTPUT are files (OUTPUT with -o for random_graph_gen), and the output
    file ALREADY EXISTS and is longer than what the generator will write (a stale result of an earlier run)"""
    import tempfile
    _io_counter[0] += 1
    base = os.path.join(WORK, "gen_io")
    os.makedirs(base, exist_ok=True)
    dd = tempfile.mkdtemp(dir=base)
    outp = os.path.join(dd, "out.txt")
    with open(outp, "wb") as fh:
        fh.write(b"stale & " * 20000 + b"stale\n")
    if out_flag:
        argv = list(args) + [out_flag, outp]
    else:
        inp = os.path.join(dd, "in.txt")
        with open(inp, "wb") as fh:
            fh.write(stdin or b"")
        argv = [inp, outp] + list(args)
    rc, so, se = run_gen(name, argv)
    try:
        content = open(outp, "rb").read()
    except OSError:
        content = b""
    if rc == 0 and so.strip():
        content = so + content          # nothing should have gone to stdout; if it did, it is part of what is judged
    import shutil
    shutil.rmtree(dd, ignore_errors=True)
    return rc, (content if rc == 0 else so), se


def parse_asts(files):
    """real parser's trees for generator outputs (harness parse-ast)"""
    summary, recs = run_harness(["parse-ast"] + files)
    return {r["file"]: r for r in recs}


def flatten_and(t):
    """c1 & (c2 & (.. & ck))  ->  ["andlist", [c1, .., ck]] (top level only; see Puzzles.tla)"""
    items = []
    while t[0] == "bin" and t[1] == "and":
        items.append(t[2])
        t = t[3]
    items.append(t)
    return ["andlist", items] if len(items) > 1 else t


def index_tree(t, idx):
    """names -> variable indices (1-based); the top-level conjunction chain is flattened"""
    return flatten_and(index_tree1(t, idx))


def index_tree1(t, idx):
    k = t[0]
    if k == "var":
        return ["var", idx[t[1]]]
    if k in ("true", "false"):
        return t
    if k == "not":
        return ["not", index_tree1(t[1], idx)]
    if k == "bin":
        # iterative on the right spine: generator outputs are conjunction chains hundreds long
        spine = []
        cur = t
        while cur[0] == "bin":
            spine.append((cur[1], index_tree1(cur[2], idx)))
            cur = cur[3]
        out = index_tree1(cur, idx)
        for op, left in reversed(spine):
            out = ["bin", op, left, out]
        return out
    if k == "ite":
        return ["ite"] + [index_tree1(x, idx) for x in t[1:]]
    if k == "cc":
        return ["cc", t[1], [index_tree1(x, idx) for x in t[2]], t[3]]
    if k == "cv":
        return ["cv", t[1], [index_tree1(x, idx) for x in t[2]], [index_tree1(x, idx) for x in t[3]]]
    raise ValueError("not quantifier free: %s" % k)


def models_run(run, rec, name, timeout=3000, workers=4):
    """one MC_Models run for one record; returns (ok, result)"""
    d = fresh_dir(run.prop, name)
    tr = os.path.join(d, "record.ndjson")
    with open(tr, "w") as fh:
        fh.write(json.dumps(rec) + "\n")
    res = run_tlc("MC_Models", "SPECIFICATION Spec\nINVARIANT Sound\nINVARIANT Lemma\nCHECK_DEADLOCK FALSE\n", d, workers=workers,
                  env={"TRACE": tr}, timeout=timeout, coverage=False, xmx="6g")
    run.add_tlc(name, res)
    return res


def classify_models(res):
    """-> None if accepted, else reason"""
    if res.ok:
        return None
    out = res.output
    if "Invariant Sound is violated" in out:
        return "the formula has a model that is not a solution"
    if "Invariant Lemma is violated" in out:
        raise ToolError("MC_Models: three-valued evaluation disagrees with EvalFull")
    m = re.search(r"Assumption line (\d+), col \d+ to line \d+, col \d+ of module MC_Models is false", out)
    if m:
        line = int(m.group(1))
        src = open(os.path.join(SPEC, "MC_Models.tla")).read().splitlines()[line - 1]
        if "Complete" in src:
            return "a solution does not satisfy the formula"
        if "NamesOK" in src:
            return "variable names are not those of the puzzle"
        if "QFree" in src:
            return "formula is outside the quantifier-free fragment"
    raise ToolError("MC_Models failed: %s" % (res.error or out[-1500:]))


# ---------------------------------------------------------------------------
def c15(run):
    t = run.tier == "thorough"
    exact = range(1, 11) if t else range(1, 8)
    run.rule = ("n_queens_gen -n n for n = %d..%d: real output -> real parser -> tree; MC_Models: every model found by the pruned search is a "
                "solution (Sound) and every solution of Puzzles!QueensSolutions satisfies the tree (Complete); larger n (to %d): every reference "
                "solution satisfies the formula and every attacking pair / row / column is covered by a counting list (Trace_Puzzle); end to "
                "end rsbdd -t -ft rows = solutions for small n; non-trivial = n >= 4") % (exact[0], exact[-1], 32 if t else 16)
    d = fresh_dir(run.prop, "gen")
    files = {}
    for n in list(exact) + ([11, 12, 13, 16, 20, 24, 32] if t else [8, 9, 10, 11, 12, 13, 16]):
        f = os.path.join(d, "q%d.txt" % n)
        # alternate between the output-file form and stdout
        if n % 2 == 0:
            if n <= 8:
                # the output file already exists and holds a LONGER formula (a previous run for a larger board)
                run_gen("n_queens_gen", ["-n", str(n + 3), f])
            rc, out, err = run_gen("n_queens_gen", ["-n", str(n), f])
        else:
            rc, out, err = run_gen("n_queens_gen", ["-n", str(n)])
            open(f, "wb").write(out)
        if rc != 0:
            run.violation("queens:gen:n=%d" % n, "n_queens_gen -n %d exited with %s: %s" % (n, rc, err[-300:]), {"mode": "queens", "n": n})
            continue
        files[n] = f
    asts = parse_asts(list(files.values()))
    jobs = []
    structural = []
    for n, f in files.items():
        a = asts[f]
        if not a.get("ok"):
            run.violation("queens:parse:n=%d" % n, "output for n=%d is not a well-formed formula: %s" % (n, a.get("error") or a.get("panic")),
                          {"mode": "queens", "n": n})
            continue
        names = sorted(a["names"], key=lambda s: (len(s), s))
        try:
            names = sorted(a["names"], key=lambda s: int(s[2:]) if s.startswith("v_") and s[2:].isdigit() else 10 ** 9)
            idx = {nm: i + 1 for i, nm in enumerate(names)}
            rec = {"kind": "queens", "n": n, "r": 0, "hints": [], "names": names, "ast": index_tree(a["tree"], idx)}
        except ValueError as ex:
            run.violation("queens:shape:n=%d" % n, "formula for n=%d: %s" % (n, ex), {"mode": "queens", "n": n})
            continue
        if n in exact:
            jobs.append((n, rec))
        else:
            structural.append((n, rec))
    with ThreadPoolExecutor(max_workers=4) as ex:
        results = list(ex.map(lambda j: (j[0], models_run(run, j[1], "models_q%d" % j[0], workers=4 if j[0] >= 6 else 2)), jobs))
    for n, res in results:
        why = classify_models(res)
        m = re.search(r'<<"SOLUTIONS", (\d+)>>', res.output)
        run.extra.setdefault("exact", {})["n=%d" % n] = {"solutions": int(m.group(1)) if m else None, "search_states": res.distinct}
        if why:
            run.violation("queens:n=%d:%s" % (n, why), "n=%d: %s" % (n, why), {"mode": "queens", "n": n})
        else:
            run.impl_traces += 1
    # larger n: solution soundness and attack-pair coverage
    if structural:
        dtr = fresh_dir(run.prop, "structural")
        tr = os.path.join(dtr, "trace.ndjson")
        with open(tr, "w") as fh:
            for n, rec in structural:
                fh.write(json.dumps(dict(rec, k="queens_cover", sample=400 if n >= 9 else 0)) + "\n")
        acc, rej, tlcs, lines = validate_trace("Trace_Puzzle", tr, {"NV": 1}, os.path.join(run.prop, "tv_structural"), shards=len(structural), timeout=3000, extra_cfg="CONSTANT NameSeq <- NS1", xmx="6g")
        for i, r in enumerate(tlcs):
            run.add_tlc("trace_structural_%d" % i, r, require_actions=["Step"])
        run.impl_traces += acc
        for i in rej:
            n = json.loads(lines[i])["n"]
            run.violation("queens:n=%d:%s" % (n, rej.reasons.get(i)), "n=%d: %s" % (n, rej.reasons.get(i)), {"mode": "queens", "n": n})
    # end to end: rsbdd lists exactly the placements
    for n in ([4, 5, 6] if t else [4, 5]):
        if n not in files:
            continue
        p = subprocess.run([repo_bin("rsbdd"), files[n], "-t", "-ft"], stdout=subprocess.PIPE, stderr=subprocess.DEVNULL, timeout=900)
        import checks_cli
        try:
            export, header, rows, vl = checks_cli.parse_stdout(p.stdout.decode())
            sols = set()
            for cells, resv in rows:
                free = [h for h, c in zip(header, cells) if c == "Any"]
                for bits in itertools.product([False, True], repeat=len(free)):
                    asg = {h: (c == "True") for h, c in zip(header, cells)}
                    asg.update(dict(zip(free, bits)))
                    sols.add(frozenset(int(h[2:]) for h, v in asg.items() if v))
            exp = run.extra.get("exact", {}).get("n=%d" % n, {}).get("solutions")
            okq = all(is_queens(s, n) for s in sols)
            if p.returncode != 0 or not okq or (exp is not None and len(sols) != exp):
                run.violation("queens:e2e:n=%d" % n, "rsbdd -t -ft on the generated %d-queens file lists %d placements (valid: %s), expected %s" % (n, len(sols), okq, exp),
                              {"mode": "queens", "n": n})
            else:
                run.impl_traces += 1
            run.extra.setdefault("end_to_end", {})["n=%d" % n] = len(sols)
        except (ValueError, IndexError) as ex:
            run.violation("queens:e2e:n=%d" % n, "rsbdd output unreadable: %s" % ex, {"mode": "queens", "n": n})
    # board sizes around the former u16 limit: exit status and list shape (text level)
    for n in ([255, 256, 300] if t else [256]):
        rc, out, err = run_gen("n_queens_gen", ["-n", str(n)], timeout=300)
        cells = [int(x) for x in re.findall(r"v_(\d+)", out.decode())]
        # only what every correct encoding shares: the formula is over exactly v_0 .. v_(n*n-1); how rows, columns and
        # diagonals are written (lists, their order, the trailing conjunct) is the generator's choice and only noted
        lists = re.findall(r"\[([^\]]*)\]\s*(<=|=)\s*1\b", out.decode())
        rows = [l for l, c in lists if c == "="]
        shape_ok = rc == 0 and cells and max(cells) == n * n - 1 and len(set(cells)) == n * n
        run.extra.setdefault("large_n_shape", {})["n=%d" % n] = {"variables_ok": bool(shape_ok), "exactly_one_lists": len(rows)}
        if not shape_ok:
            run.violation("queens:shape:n=%d" % n, "n_queens_gen -n %d: exit %s, %d distinct variables (max index %s)" % (
                n, rc, len(set(cells)), max(cells) if cells else None), {"mode": "queens", "n": n})
    run.evaluations = len(files)
    run.nontrivial = len([n for n in files if n >= 4])
    run.sample({"n": 4, "formula_head": open(files[4]).read()[:300] if 4 in files else ""})
    run.assumptions += ["the generator's text is turned into a tree by the real rsbdd parser (validated by C08)",
                        "n >= 256 overflows the generator's u16 arithmetic (documented bound, see DESIGN finding F9)"]


def is_queens(s, n):
    s = list(s)
    if len(s) != n:
        return False
    for i in range(len(s)):
        for j in range(i + 1, len(s)):
            r1, c1, r2, c2 = s[i] // n, s[i] % n, s[j] // n, s[j] % n
            if r1 == r2 or c1 == c2 or abs(r1 - r2) == abs(c1 - c2):
                return False
    return True


# ---------------------------------------------------------------------------
SOLVED9 = [
    "534678912672195348198342567859761423426853791713924856961537284287419635345286179",
    "123456789456789123789123456214365897365897214897214365531642978642978531978531642",
    "812753649943682175675491283154237896369845721287169534521974368438526917796318452",
]


def sudoku_hints(text, r):
    sq = r * r
    chars = [c for c in text if not c.isspace()]
    return [(int(c) if c in "0123456789" else 0) for c in chars[: sq * sq]] + [0] * max(0, sq * sq - len(chars))


def c17(run):
    t = run.tier == "thorough"
    rnd = random.Random(seed() * 31 + 5)
    run.rule = ("sudoku_gen -r 1 and -r 2 on empty grid, every single hint (thorough) / a sample, random hint patterns incl. contradictory and "
                "full grids, with layout / blank-symbol / short / over-long text variations: exact model-set equality by MC_Models; -r 3: known "
                "solved grids satisfy the formula and near misses (swapped cells, violated given) falsify it (Trace_Puzzle); non-trivial = "
                "puzzles with >= 1 hint")
    d = fresh_dir(run.prop, "gen")
    puzzles = []   # (r, text, label)
    puzzles.append((1, "", "r1-empty"))
    puzzles.append((1, "1", "r1-given"))
    puzzles.append((2, "", "r2-empty"))
    sols2 = ["1234341221434321", "1234341243212143", "2143341212344321", "4321123421433412"]
    blanks = [".", "_", "x", "*", "-", "\"", "?", "o", "\u00b7", "\u25a1", "\u00e9", "\U0001f7e6"]   # incl. 2-, 3- and 4-byte characters
    singles = [(c, dd) for c in range(16) for dd in range(1, 5)]
    for (c, dd) in (singles if t else rnd.sample(singles, 6)):
        b = rnd.choice(blanks)
        puzzles.append((2, b * c + str(dd), "r2-single-%d-%d" % (c, dd)))
    for i in range(24 if t else 8):
        sol = rnd.choice(sols2)
        keep = rnd.sample(range(16), rnd.randint(2, 10))
        b = rnd.choice(blanks)
        txt = "".join(sol[j] if j in keep else b for j in range(16))
        kind = rnd.randint(0, 4)
        if kind == 0:     # contradictory
            j = rnd.choice(keep)
            txt = txt[:j] + str((int(sol[j]) % 4) + 1) + txt[j + 1:]
        elif kind == 1:   # layout (ASCII and non-ASCII whitespace)
            txt = rnd.choice(["\n", " \n", "\u00a0\n", "\t", "\u3000"]).join(txt[k:k + 4] for k in range(0, 16, 4)) + "\n"
        elif kind == 2:   # short input
            txt = txt[: rnd.randint(3, 12)]
        elif kind == 3:   # over-long input, digits beyond the square
            txt = txt + "1234" + " 9"
        puzzles.append((2, txt, "r2-rand-%d" % i))
    # "whitespace in the puzzle text is ignored": one layout per white-space character (Unicode White_Space: ASCII blanks,
    # vertical tab, form feed, CRLF, NEL, no-break space, thin space, line separator, ideographic space), between the rows and
    # inside them
    for wi, ws in enumerate([" ", "\t", "\n", "\r\n", "\x0b", "\x0c", "\u0085", "\u00a0", "\u2009", "\u2028", "\u3000"]):
        sol = sols2[wi % len(sols2)]
        keep = rnd.sample(range(16), rnd.randint(3, 8))
        b = blanks[wi % 4]
        cells = "".join(sol[j] if j in keep else b for j in range(16))
        txt = ws.join(cells[k:k + 4] for k in range(0, 16, 4)) + ws
        if wi % 2 == 1:
            txt = ws + txt[:2] + ws + txt[2:]
        puzzles.append((2, txt, "r2-layout-%d" % wi))
    puzzles.append((2, sols2[0], "r2-full"))
    puzzles.append((2, "5" + "." * 15, "r2-digit-out-of-range"))
    files = []
    for i, (r, txt, label) in enumerate(puzzles):
        f = os.path.join(d, "s%d.txt" % i)
        if i % 3 == 1:
            rc, out, err = run_gen_files("sudoku_gen", ["-r", str(r)], txt.encode())
        else:
            rc, out, err = run_gen("sudoku_gen", ["-r", str(r)], stdin=txt.encode())
        open(f, "wb").write(out)
        files.append(f)
        if rc != 0:
            run.violation("sudoku:gen:%s" % label, "sudoku_gen -r %d exited with %s on %r" % (r, rc, txt), {"mode": "sudoku", "r": r, "text": txt})
    asts = parse_asts(files)
    jobs = []
    for i, (r, txt, label) in enumerate(puzzles):
        a = asts[files[i]]
        if not a.get("ok"):
            run.violation("sudoku:parse:%s" % ("quote" if '"' in txt else label),
                          "output of sudoku_gen -r %d on puzzle text %r is not a well-formed formula: %s" % (r, txt, a.get("error") or a.get("panic")),
                          {"mode": "sudoku", "r": r, "text": txt})
            continue
        sq = r * r
        names = ["_%d_is_%d" % (c, dd) for c in range(sq * sq) for dd in range(1, sq + 1)]
        extra = [n for n in a["names"] if n not in names]
        hints = sudoku_hints(txt, r)
        if extra:
            # a given outside 1..r^2 names a variable no cell constraint mentions: the puzzle is unsatisfiable by the
            # property's reading (givens are digits between 1 and r^2) -- only check that the formula says so too
            if any(h > sq for h in hints):
                continue
            run.violation("sudoku:names:%s" % label, "unexpected variables %s" % extra[:5], {"mode": "sudoku", "r": r, "text": txt})
            continue
        idx = {nm: k + 1 for k, nm in enumerate(names)}
        rec = {"kind": "sudoku", "n": 0, "r": r, "hints": hints, "names": names, "ast": index_tree(a["tree"], idx)}
        jobs.append((i, label, r, txt, rec))
    with ThreadPoolExecutor(max_workers=6) as ex:
        results = list(ex.map(lambda j: (j, models_run(run, j[4], "models_s%d" % j[0], workers=2)), jobs))
    for (i, label, r, txt, rec), res in results:
        why = classify_models(res)
        m = re.search(r'<<"SOLUTIONS", (\d+)>>', res.output)
        run.extra.setdefault("exact", {})[label] = {"solutions": int(m.group(1)) if m else None, "search_states": res.distinct}
        if why:
            run.violation("sudoku:%s:%s" % (label.split("-")[0] + "-" + label.split("-")[1], why), "puzzle %r (r=%d): %s" % (txt, r, why),
                          {"mode": "sudoku", "r": r, "text": txt})
        else:
            run.impl_traces += 1
    # r = 3: soundness and near-miss rejection
    f3 = os.path.join(d, "s9.txt")
    given = "".join(ch if k % 3 == 0 else "." for k, ch in enumerate(SOLVED9[0]))
    rc, out, err = run_gen("sudoku_gen", ["-r", "3"], stdin=given.encode())
    open(f3, "wb").write(out)
    f3e = os.path.join(d, "s9e.txt")
    rc2, out2, err2 = run_gen("sudoku_gen", [], stdin=b"")      # default root 3, empty puzzle
    open(f3e, "wb").write(out2)
    a3 = parse_asts([f3, f3e])
    names9 = ["_%d_is_%d" % (c, dd) for c in range(81) for dd in range(1, 10)]
    idx9 = {nm: k + 1 for k, nm in enumerate(names9)}
    dtr = fresh_dir(run.prop, "r3")
    tr = os.path.join(dtr, "trace.ndjson")
    with open(tr, "w") as fh:
        for f, hints, grids in ((f3, sudoku_hints(given, 3), [SOLVED9[0]]), (f3e, [0] * 81, SOLVED9)):
            a = a3[f]
            if not a.get("ok"):
                run.violation("sudoku:parse:r3", "sudoku_gen -r 3 output is not a formula", {"mode": "sudoku", "r": 3, "text": given})
                continue
            good = [[int(c) for c in g] for g in grids]
            bad = []
            for g in good:
                for _ in range(12 if t else 5):
                    h = g[:]
                    i1 = rnd.randrange(81)
                    i2 = rnd.choice([j for j in range(81) if j != i1 and h[j] != h[i1] and (j // 9 == i1 // 9 or j % 9 == i1 % 9)])
                    h[i1], h[i2] = h[i2], h[i1]
                    bad.append(h)
            # grids that keep every row and column but break boxes (two rows of different bands swapped), and the
            # analogous ones for rows / columns (transposed band swap)
            for g in good:
                h = g[:]
                r1, r2 = rnd.randrange(0, 3), rnd.randrange(3, 9)
                h[r1 * 9:(r1 + 1) * 9], h[r2 * 9:(r2 + 1) * 9] = g[r2 * 9:(r2 + 1) * 9], g[r1 * 9:(r1 + 1) * 9]
                bad.append(h)
                h2 = g[:]
                c1, c2 = rnd.randrange(0, 3), rnd.randrange(3, 9)
                for rr in range(9):
                    h2[rr * 9 + c1], h2[rr * 9 + c2] = g[rr * 9 + c2], g[rr * 9 + c1]
                bad.append(h2)
            fh.write(json.dumps({"k": "sudoku_sound", "r": 3, "hints": hints, "names": names9, "ast": index_tree(a["tree"], idx9),
                                 "good": good, "bad": bad}) + "\n")
            fh.write(json.dumps({"k": "sudoku_cover", "r": 3, "hints": hints, "names": names9, "ast": index_tree(a["tree"], idx9)}) + "\n")
    with open(tr, "a") as fh:
        for r4 in ((2, 4) if t else (2,)):
            f4 = os.path.join(d, "s_cover_r%d.txt" % r4)
            sq4 = r4 * r4
            txt4 = "".join(str(rnd.randint(1, min(9, sq4))) if rnd.random() < 0.2 else "." for _ in range(sq4 * sq4))
            rc4, out4, err4 = run_gen("sudoku_gen", ["-r", str(r4)], stdin=txt4.encode())
            open(f4, "wb").write(out4)
            a4 = parse_asts([f4])[f4]
            if a4.get("ok"):
                names4 = ["_%d_is_%d" % (c, dd) for c in range(sq4 * sq4) for dd in range(1, sq4 + 1)]
                idx4 = {nm: k + 1 for k, nm in enumerate(names4)}
                try:
                    fh.write(json.dumps({"k": "sudoku_cover", "r": r4, "hints": sudoku_hints(txt4, r4), "names": names4,
                                         "ast": index_tree(a4["tree"], idx4)}) + "\n")
                except (KeyError, ValueError) as ex:
                    run.violation("sudoku:names:r%d" % r4, "unexpected variables in -r %d output: %s" % (r4, ex), {"mode": "sudoku", "r": r4, "text": txt4})
            else:
                run.violation("sudoku:parse:r%d" % r4, "sudoku_gen -r %d output is not a formula" % r4, {"mode": "sudoku", "r": r4, "text": txt4})
    acc, rej, tlcs, lines = validate_trace("Trace_Puzzle", tr, {"NV": 1}, os.path.join(run.prop, "tv_r3"), shards=4, timeout=3000, extra_cfg="CONSTANT NameSeq <- NS1", xmx="6g")
    for i, r in enumerate(tlcs):
        run.add_tlc("trace_r3_%d" % i, r, require_actions=["Step"])
    run.impl_traces += acc
    for i in rej:
        run.violation("sudoku:r3:%s" % rej.reasons.get(i), "r=3: %s" % rej.reasons.get(i), {"mode": "sudoku", "r": 3, "text": given})
    run.evaluations = len(puzzles) + 2
    run.nontrivial = len([p for p in puzzles if any(c.isdigit() for c in p[1])])
    run.sample({"puzzle": puzzles[5][1], "r": puzzles[5][0], "formula_head": open(files[5]).read()[:200]})
    run.assumptions += ["the generator's text is turned into a tree by the real rsbdd parser (validated by C08)"]


# ---------------------------------------------------------------------------
def graphs_upto(nv_names, max_records, directed_only_simple=False):
    """all edge lists (sequences incl. duplicates and one-directional edges) over the names, up to max_records"""
    pairs = [(a, b) for a in nv_names for b in nv_names if a != b]
    for k in range(0, max_records + 1):
        for seq in itertools.product(pairs, repeat=k):
            yield list(seq)


def c16(run):
    t = run.tier == "thorough"
    rnd = random.Random(seed() * 17 + 3)
    run.rule = ("max_clique_gen on every edge list with <= 3 records over 3 vertices (thorough: <= 4 records; plus all simple graphs on 4 "
                "vertices and sampled 5-vertex lists) x {-u} x {-a}, vertex names from a pool with a v_ prefix collision (a, v_a): real output "
                "-> real parser -> tree; Trace_Puzzle: models of the tree (Lang!Sem), projected to vertex variables with unmentioned vertices "
                "free, equal Puzzles!MaxCliques / Cliques; non-trivial = graphs with >= 1 edge record")
    d = fresh_dir(run.prop, "gen")
    cases = []
    pools = [["a", "b", "c"], ["a", "v_a", "c"], ["x1", "v_x1", "v_v_x1"], ["p", "q", "_r"],
             ["a", "a_a", "a_a_a"], ["a", "b_c", "a_b"], ["x_y", "y", "x"]]
    lists3 = list(graphs_upto(["A", "B", "C"], 4 if t else 3))
    if not t:
        lists3 = [g for g in lists3 if len(g) <= 2] + rnd.sample([g for g in lists3 if len(g) == 3], 60)
    for g in lists3:
        pool = rnd.choice(pools)
        ren = dict(zip(["A", "B", "C"], pool))
        cases.append([(ren[a], ren[b]) for a, b in g])
    n4 = 400 if t else 110
    # names whose concatenations with "_" / "v_" coincide (a_b + c = a + b_c ...), keyword-like names, digits
    fours = [["a", "b", "v_a", "d"], ["a", "b_c", "a_b", "c"], ["x", "x_y", "y_z", "z"], ["n_1", "n_2", "n_1_2", "n"], ["and1", "or_", "_", "T"]]
    for _ in range(n4):
        four = rnd.choice(fours)
        pairs4 = [(a, b) for a in four for b in four if a != b]
        k = rnd.randint(1, 8)
        cases.append([rnd.choice(pairs4) for _ in range(k)])
    if t:
        five = ["a", "b", "c", "d", "e"]
        pairs5 = [(a, b) for a in five for b in five if a != b]
        for _ in range(60):
            cases.append([rnd.choice(pairs5) for _ in range(rnd.randint(3, 12))])
    items = []
    files = []
    for i, g in enumerate(cases):
        if not g:
            continue
        for und in (False, True):
            for al in (False, True):
                if len(g) > 2 and rnd.random() < (0.0 if t else 0.5):
                    continue
                f = os.path.join(d, "c%d_%d%d.txt" % (i, und, al))
                items.append((g, und, al, f))
    def gen(it):
        g, und, al, f = it
        csv = "".join("%s,%s\n" % e for e in g)
        args = (["-u"] if und else []) + (["-a"] if al else [])
        import zlib
        if zlib.crc32(f.encode()) % 3 == 0:
            rc, out, err = run_gen_files("max_clique_gen", args, csv.encode())
        else:
            rc, out, err = run_gen("max_clique_gen", args, stdin=csv.encode())
        open(f, "wb").write(out)
        return rc
    with ThreadPoolExecutor(max_workers=NCPU) as ex:
        rcs = list(ex.map(gen, items))
    asts = parse_asts([it[3] for it in items])
    groups = {}
    for (g, und, al, f), rc in zip(items, rcs):
        a = asts[f]
        key = "collide" if any(("v_" + x) in {y for e in g for y in e} for e in g for x in e) else "plain"
        rp = {"mode": "clique", "edges": g, "undirected": und, "all": al}
        if rc != 0 or not a.get("ok"):
            run.violation("clique:gen:%s" % key, "max_clique_gen failed or emitted a non-formula for %s" % g, rp)
            continue
        names = a["names"]
        if len(names) > 6 and not t:
            continue
        if len(names) > 10:
            continue
        canon = {n: "n%d" % (k + 1) for k, n in enumerate(names)}
        import checks_cli  # noqa: F401
        from checks_cli import names_of_formula  # noqa: F401
        verts = sorted({x for e in g for x in e})
        rec = {"k": "clique", "vertices": verts, "edges": [list(e) for e in g], "undirected": und, "all": al,
               "ast": rename_tree(a["tree"], canon), "free": [canon[n] for n in a["free"]],
               "vmap": [[v, canon.get(v, "")] for v in verts], "key": key}
        groups.setdefault(max(1, len(names)), []).append(rec)
    total = 0
    for k, recs in sorted(groups.items()):
        dtr = fresh_dir(run.prop, "tr_k%d" % k)
        tr = os.path.join(dtr, "trace.ndjson")
        with open(tr, "w") as fh:
            for r in recs:
                fh.write(json.dumps(r) + "\n")
        acc, rej, tlcs, lines = validate_trace("Trace_Puzzle", tr, {"NV": k}, os.path.join(run.prop, "tv_k%d" % k),
                                               shards=8 if k <= 6 else 16, timeout=3000, extra_cfg="CONSTANT NameSeq <- NS%d" % k)
        for i, r in enumerate(tlcs):
            run.add_tlc("trace_k%d_%d" % (k, i), r, require_actions=["Step"])
        run.impl_traces += acc
        total += len(lines)
        for i in rej:
            r = recs[i]
            run.violation("clique:%s:%s" % (r["key"], rej.reasons.get(i)),
                          "edges %s undirected=%s all=%s: %s" % (r["edges"], r["undirected"], r["all"], rej.reasons.get(i)),
                          {"mode": "clique", "edges": r["edges"], "undirected": r["undirected"], "all": r["all"]})
    run.evaluations = total
    run.nontrivial = total
    g0 = groups[max(groups)][0]
    run.sample({"edges": g0["edges"], "undirected": g0["undirected"], "all": g0["all"], "tree": g0["ast"]})
    run.exhaustive = True


def rename_tree(t, ren):
    k = t[0]
    if k == "var":
        return ["var", ren[t[1]]]
    if k in ("true", "false", "ref"):
        return t
    if k == "not":
        return ["not", rename_tree(t[1], ren)]
    if k == "bin":
        return ["bin", t[1], rename_tree(t[2], ren), rename_tree(t[3], ren)]
    if k == "ite":
        return ["ite"] + [rename_tree(x, ren) for x in t[1:]]
    if k == "q":
        return ["q", t[1], [ren[x] for x in t[2]], rename_tree(t[3], ren)]
    if k == "cc":
        return ["cc", t[1], [rename_tree(x, ren) for x in t[2]], t[3]]
    if k == "cv":
        return ["cv", t[1], [rename_tree(x, ren) for x in t[2]], [rename_tree(x, ren) for x in t[3]]]
    if k == "fix":
        return ["fix", ren[t[1]], t[2], rename_tree(t[3], ren)]
    raise ValueError(k)


# ---------------------------------------------------------------------------
def parse_edges(out, dot, undirected):
    """the edge list of random_graph_gen's output: DOT (graph / digraph, read with the general DOT reader; node statements
    carry no edges) or CSV lines `from,to`"""
    text = out.decode()
    if dot:
        from checks_cli import parse_dot
        g = parse_dot(text, undirected=undirected)
        return [[a, b] for a, b, _ in g["edges"]]
    import csv
    import io
    edges = []
    for row in csv.reader(io.StringIO(text)):
        if not row:
            continue
        if len(row) != 2:
            raise ValueError("edge line with %d fields: %r" % (len(row), row))
        edges.append([row[0], row[1]])
    return edges


def c18(run):
    t = run.tier == "thorough"
    rnd = random.Random(seed() * 13 + 1)
    R = 12 if t else 3
    run.rule = ("random_graph_gen for every request V in 0..5, E in 0..V(V-1)+2, x {-u} x {--complete} x {--dot}, each executed %d times "
                "(fresh samples): Trace_Puzzle GraphOK (exactly E distinct edges between distinct vertices v0..v(V-1), no pair in both "
                "orientations with -u, all pairs with --complete, infeasible <=> error exit and no output); --convert / --colors k on all "
                "small input graphs: ConvertSpec and covering clique <=> k-colourable by brute force; non-trivial = feasible requests with "
                "E >= 1 and convert/colour cases") % R
    d = fresh_dir(run.prop, "gen")
    reqs = []
    for V in range(0, 6):
        for E in range(0, V * (V - 1) + 3):
            for und in (False, True):
                for dot in (False, True):
                    reqs.append((V, E, und, False, dot))
        for und in (False, True):
            reqs.append((V, 0, und, True, rnd.random() < 0.5))
    if not t:
        reqs = [r for r in reqs if r[3] or r[0] <= 3 or rnd.random() < 0.35]
    recs = []

    def one(req):
        V, E, und, comp, dot = req
        out = []
        for _ in range(R):
            args = [str(V)] + ([str(E)] if not comp or rnd.random() < 0.5 else []) + (["-u"] if und else []) + (["--complete"] if comp else []) + (["--dot"] if dot else [])
            if rnd.random() < 0.25:
                rc, so, se = run_gen_files("random_graph_gen", args, None, out_flag="-o")
            else:
                rc, so, se = run_gen("random_graph_gen", args)
            out.append((args, rc, so))
        return req, out

    with ThreadPoolExecutor(max_workers=NCPU) as ex:
        results = list(ex.map(one, reqs))
    for (V, E, und, comp, dot), outs in results:
        for args, rc, so in outs:
            rp = {"mode": "graph", "args": args}
            if rc == 101 or rc < 0 or rc >= 128:
                run.violation("graph:abnormal:%s" % ("complete" if comp else "plain"), "random_graph_gen %s ended with status %s" % (" ".join(args), rc), rp)
                continue
            rc = 0 if rc == 0 else 1       # any ordinary non-zero status is a refusal
            try:
                edges = parse_edges(so, dot, und) if rc == 0 else []
            except ValueError as ex2:
                run.violation("graph:unreadable", "random_graph_gen %s: %s" % (" ".join(args), ex2), rp)
                continue
            recs.append({"k": "graph", "nv": V, "ne": E, "undirected": und, "complete": comp, "exit": rc, "edges": edges,
                         "stdout_empty": so == b"", "args": args})
    # convert / colours on small input graphs
    names = ["a", "b", "c", "d"]
    pairs = [(x, y) for x in names for y in names if x != y]
    inputs = [[]]
    for k in range(1, 5 if t else 4):
        allk = list(itertools.product(pairs[:6] if k >= 3 else pairs, repeat=k))
        inputs += [list(s) for s in (allk if len(allk) < 300 else rnd.sample(allk, 300 if t else 80))]
    # the same shapes under other vertex names: numbers, names that are prefixes of each other
    # (followed by a digit / an upper-case letter / an underscore), mixed case
    pools = [["1", "10", "2", "12"], ["v1", "v10", "v2", "v11"], ["A", "AB", "B", "a"], ["x", "x_c0", "x_c1", "y"]]
    renamed = []
    for g in rnd.sample(inputs[1:], min(len(inputs) - 1, 240 if t else 60)):
        pool = rnd.choice(pools)
        ren = dict(zip(names, pool))
        renamed.append([(ren[x], ren[y]) for x, y in g])
    inputs += renamed
    # names whose plain concatenations coincide ("1"+"12" = "11"+"2"): an edge key built without a separator confuses them
    ambiguous = [["1", "12", "11", "2"], ["a", "ab", "aa", "b"], ["x", "x_y", "x_", "_y"], ["v1", "v11", "v", "1v11"]]
    forced = set()
    plain = inputs[1:len(inputs) - len(renamed)]
    for pool in ambiguous:
        for g in rnd.sample(plain, 120 if t else 45):
            ren = dict(zip(names, pool))
            forced.add(len(inputs))
            inputs.append([(ren[x], ren[y]) for x, y in g])
    conv_items = []
    for gi, g in enumerate(inputs):
        f = os.path.join(d, "g%d.csv" % gi)
        with open(f, "w") as fh:
            fh.write("".join("%s,%s\n" % e for e in g))
        for und in (False, True):
            conv_items.append((g, f, und, None))
            if g:
                for kcol in (1, 2, 3):
                    if t or gi in forced or rnd.random() < 0.5:
                        conv_items.append((g, f, und, kcol))

    def conv(it):
        g, f, und, kcol = it
        args = ["--convert", f] + (["-u"] if und else []) + (["--colors", str(kcol)] if kcol else [])
        rc, so, se = run_gen("random_graph_gen", args)
        return it, args, rc, so

    with ThreadPoolExecutor(max_workers=NCPU) as ex:
        cres = list(ex.map(conv, conv_items))
    for (g, f, und, kcol), args, rc, so in cres:
        rp = {"mode": "graph", "args": args, "input": g}
        if rc != 0:
            run.violation("graph:convert:exit", "random_graph_gen %s on %s ended with status %s" % (" ".join(args[2:]), g, rc), rp)
            continue
        try:
            edges = parse_edges(so, False, und)
        except ValueError as ex2:
            run.violation("graph:unreadable", "random_graph_gen --convert: %s" % ex2, rp)
            continue
        recs.append({"k": "convert" if kcol is None else "colors", "input": [list(e) for e in g], "undirected": und, "colors": kcol or 0,
                     "edges": edges, "args": args[2:]})
    dtr = fresh_dir(run.prop, "tr")
    tr = os.path.join(dtr, "trace.ndjson")
    with open(tr, "w") as fh:
        for r in recs:
            fh.write(json.dumps(r) + "\n")
    acc, rej, tlcs, lines = validate_trace("Trace_Puzzle", tr, {"NV": 1}, os.path.join(run.prop, "tv"), shards=12, timeout=3000, extra_cfg="CONSTANT NameSeq <- NS1")
    for i, r in enumerate(tlcs):
        run.add_tlc("trace_%d" % i, r, require_actions=["Step"])
    run.impl_traces += acc
    run.evaluations = len(lines)
    for i in rej:
        r = recs[i]
        tag = r["k"] + (":complete" if r.get("complete") else "")
        run.violation("graph:%s:%s" % (tag, rej.reasons.get(i)), "random_graph_gen %s%s: %s -- output %s" % (
            " ".join(r["args"]), (" on input %s" % r["input"]) if "input" in r else "", rej.reasons.get(i), r["edges"][:8]),
            {"mode": "graph", "args": r["args"], "input": r.get("input")})
    run.nontrivial = sum(1 for r in recs if (r["k"] == "graph" and r["exit"] == 0 and r["ne"] >= 1) or r["k"] != "graph")
    run.sample({"request": recs[len(recs) // 3]})
    run.sample({"request": recs[-1]})
    run.assumptions += ["the generator's own randomness is sampled (%d runs per request), not enumerated" % R,
                        "the CSV / DOT edge-list reader in lib/checks_puzzles.py is trusted"]


def replay_generic(prop, rp):
    """re-run the owning check (generators are cheap) and report whether the same key violates again"""
    run = Run(prop, "quick")
    CHECKS[prop](run)
    return not run.violations


CHECKS = {"C15": c15, "C16": c16, "C17": c17, "C18": c18}
REPLAYS = {"queens": replay_generic, "sudoku": replay_generic, "clique": replay_generic, "graph": replay_generic}
