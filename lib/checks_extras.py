"""./check extras -- behaviour outside the twenty listed properties (Extras.tla / Trace_Extras.tla).
Not registered in MANIFEST.json (no property owns it); exit 0 = every record accepted."""
import json
import os
import subprocess

from vlib import *


def extras(run):
    t = run.tier == "thorough"
    d = fresh_dir("extras", "rec")
    tr = os.path.join(d, "trace.ndjson")
    summary, _ = run_harness(["record-extras", tr, str(400 if t else 60)])
    recs = [json.loads(l) for l in open(tr)]
    # argument / file errors of the binaries
    build_repo_bins()
    cli = []
    for name, args in (("rsbdd", ["/nonexistent/input.txt", "-t"]), ("rsbdd", ["--evaluate=a", "-o", "/nonexistent/order.txt", "-t"]),
                       ("rsbdd", [WORK, "-t"]), ("max_clique_gen", ["/nonexistent.csv"]), ("sudoku_gen", ["/nonexistent.txt"]),
                       ("random_graph_gen", ["--convert", "/nonexistent.csv"]), ("random_graph_gen", []), ("random_graph_gen", ["3"]),
                       ("n_queens_gen", ["-n", "4", "/nonexistent_dir/out.txt"])):
        p = subprocess.run([repo_bin(name)] + args, stdin=subprocess.DEVNULL, stdout=subprocess.PIPE, stderr=subprocess.DEVNULL, timeout=60)
        cli.append({"k": "cli_err", "bin": name, "args": args, "exit": 0 if p.returncode == 0 else (1 if 0 < p.returncode < 128 and p.returncode != 101 else 99),
                    "stdout_empty": p.stdout == b""})
    groups = {}
    for r in recs + cli:
        k = 3
        if r["k"] == "defs":
            k = max(3, len(r["tt"]).bit_length() - 1)
        groups.setdefault(k, []).append(r)
    bad = 0
    total = 0
    for k, rs in sorted(groups.items()):
        p = os.path.join(d, "k%d.ndjson" % k)
        with open(p, "w") as fh:
            for r in rs:
                fh.write(json.dumps(r) + "\n")
        ns = "NS3" if k == 3 else None
        extra = "CONSTANT NameSeq <- NS%d" % k
        acc, rej, tlcs, lines = validate_trace("Trace_Extras", p, {"NV": k}, os.path.join("extras", "tv_k%d" % k), shards=4, extra_cfg=extra)
        total += len(lines)
        for i in rej:
            bad += 1
            log("extras: REJECTED (%s): %s" % (rej.reasons.get(i), lines[i].strip()[:400]))
    print("extras: %d records (%s), %d rejected" % (total, ", ".join("%s=%d" % (kk, sum(1 for r in recs + cli if r["k"] == kk)) for kk in sorted({r["k"] for r in recs + cli})), bad))
    if bad:
        raise ToolError("extras: %d records rejected" % bad)


CHECKS = {"extras": extras}
