#!/usr/bin/env python3
"""seedrecheck.py <ID> [check]: apply seeded/<ID>/patch.diff to /repo, run the owning quick check, undo, and record the outcome in
seeded/<ID>/meta.json (the first outcome is kept as "first_result")."""
import json
import os
import subprocess
import sys
import time

ID = sys.argv[1]
chk = sys.argv[2] if len(sys.argv) > 2 else ID[:3]
d = "/verif/seeded/%s" % ID
meta = json.load(open(os.path.join(d, "meta.json")))
assert subprocess.run("git -C /repo status --short", shell=True, stdout=subprocess.PIPE, text=True).stdout.strip() == "", "/repo is dirty"
assert subprocess.run("git -C /repo apply %s/patch.diff" % d, shell=True).returncode == 0
try:
    t = time.time()
    p = subprocess.run("./check %s --tier quick 2>&1 | tail -4" % chk, shell=True, cwd="/verif", stdout=subprocess.PIPE, text=True, timeout=7200)
    lines = [l for l in p.stdout.splitlines() if "violation:" in l or l.startswith("[")]
    res = {"exit_is_violation": "VIOLATION" in p.stdout or "violations=0" not in p.stdout, "tail": lines[-2:], "wall_s": round(time.time() - t)}
finally:
    subprocess.run("git -C /repo checkout -- .", shell=True)
if "first_result" not in meta:
    meta["first_result"] = meta.get("checks_against_patch", {})
meta["checks_against_patch"] = {chk: res}
json.dump(meta, open(os.path.join(d, "meta.json"), "w"), indent=1)
print(ID, chk, res["exit_is_violation"], (res["tail"] or [""])[0][:160])
