#!/bin/bash
# Property-preserving variations x every check (quick tier), on a scratch copy of the repository (never /repo):
#   vp run --with-repo -- env BENIGN="C01n C02n" bash lib/benign.sh
# Every cell must be exit 0 without a VIOLATION line.  Output: work/benign.tsv (variation, check, exit status, VIOLATION lines)
set -u
REPO_COPY=${VP_RUN_REPO:?needs vp run --with-repo}
export VERIF_REPO=$REPO_COPY
sed -i "s#path = \"/repo\"#path = \"$REPO_COPY\"#" harness/Cargo.toml
mkdir -p work
OUT=work/benign_${BENIGN_TAG:-all}.tsv
: > $OUT
CHECKS="C01 C02 C03 C04 C05 C06 C07 C08 C09 C10 C11 C12 C13 C14 C15 C16 C17 C18 C19 C20"
for b in ${BENIGN:?list of variations}; do
  git -C "$REPO_COPY" checkout -q -- .
  git -C "$REPO_COPY" apply "$PWD/seeded/benign/$b/patch.diff" || { echo "$b patch failed"; continue; }
  eval "list=\${CHECKS_$b:-${BENIGN_CHECKS:-$CHECKS}}"       # a per-variation list: CHECKS_C11n="C10 C11"
  for c in $list; do
    timeout 3600 ./check $c --tier quick > work/b_${b}_$c.log 2>&1
    rc=$?
    printf "%s\t%s\t%s\t%s\n" "$b" "$c" "$rc" "$(grep -c '^VIOLATION' work/b_${b}_$c.log)" >> $OUT
    if [ $rc -ne 0 ]; then echo "--- $b $c"; grep -E "violation:|VIOLATION|ToolError|Traceback" work/b_${b}_$c.log | head -5; fi
  done
  git -C "$REPO_COPY" checkout -q -- .
done
cat $OUT
