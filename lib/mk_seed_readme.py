import json, os, re
root='/verif/seeded'
def row(ID):
    m=json.load(open(os.path.join(root,ID,'meta.json')))
    cur=list(m.get('checks_against_patch',{}).values())
    first=list(m.get('first_result',{}).values())
    cur=cur[0] if cur else {}
    first=first[0] if first else None
    msg=(cur.get('tail') or [''])[0].strip()
    msg=msg.replace('|','\\|')[:150]
    fr='caught' if (first is None and cur.get('exit_is_violation')) else ('missed' if first is not None and not first.get('exit_is_violation') else ('caught' if first is None or first.get('exit_is_violation') else 'missed'))
    return "| %s | %s | %s | %s |" % (ID, 'yes' if cur.get('exit_is_violation') else 'NO', fr, msg)
out=[]
for suf,title,intro in (('c','Fourth round','Twenty changes asked to stay invisible to small exhaustive enumeration (many variables, long histories, rare option combinations, unusual text). Nine were missed by the quick tier as it stood (C01c C02c C05c C06c C07c C11c C13c C14c C18c); DESIGN.md 9.6 lists what each needed and what was added.'),
                        ('d','Fifth round','Twenty changes of five flavours (interplay of two features, state carried between calls, rare spellings / channels, boundaries of sizes and ids, shared helpers). Drivers for the gaps visible from the agents\' reports were added before the first run; C06d was still missed and led to the enumerated nested-fixed-point family (spec/MC_Nest.tla).')):
    out.append("\n## %s\n\n%s\n\n| seed | quick check reports it now | first run | what the check said |\n|---|---|---|---|" % (title,intro))
    for i in range(1,21):
        ID="C%02d%s"%(i,suf)
        if os.path.exists(os.path.join(root,ID,'meta.json')):
            out.append(row(ID))
out.append("\n## Sixth round\n\nTwenty changes aimed at an easily overlooked clause of the property statement (a parenthesis, a listed special case, 'unchanged', 'hash', 'for every repetition count', 'whitespace is ignored', n = 1 ...). Run blind: nothing was added between the agents' reports and the first run. Eighteen were reported; C12e (a panic on convergent NESTED fixed points: C12 did not evaluate fixed-point formulas) and C17e (white space other than the five ASCII blanks) were missed and closed, see DESIGN.md 9.6.\n\n| seed | quick check reports it now | first run | what the check said |\n|---|---|---|---|")
for i in range(1,21):
    ID="C%02de"%i
    if os.path.exists(os.path.join(root,ID,'meta.json')):
        out.append(row(ID))
out.append("\n## Seventh round\n\nTwenty changes made AWAY from the code the property's anchors point at (symbol types and their Eq / Hash, `ite`, `and`, the tokenizer's id counter, clap argument definitions, the output sinks of the generators, `var_is_free`, `SymbolicBDD`'s equality ...), run blind. Sixteen were reported; C01f, C04f, C08f, C13f were missed and closed, see DESIGN.md 9.6.\n\n| seed | quick check reports it now | first run | what the check said |\n|---|---|---|---|")
for i in range(1,21):
    ID="C%02df"%i
    if os.path.exists(os.path.join(root,ID,'meta.json')):
        out.append(row(ID))
out.append("\n## Eighth round\n\nTen changes (C01 C05 C06 C10 C12 C13 C15 C17 C18 C19): arithmetic and boundary slips (integer width, cast before clamp, off-by-one in a clamp or range, bytes for bits, a half-open range of digits), run blind. Nine were reported; C12g (a counting constant of exactly 2^63 overflows in debug builds) was missed because C12 did not evaluate counting formulas with extreme constants; it now replays the quantifier / counting family of MC_Nest.\n\n| seed | quick check reports it now | first run | what the check said |\n|---|---|---|---|")
for i in range(1,21):
    ID="C%02dg"%i
    if os.path.exists(os.path.join(root,ID,'meta.json')):
        out.append(row(ID))
out.append('''
## Property-preserving variations (`benign/`)

Twenty changes by fresh sub-agents that alter as much as possible of what the property does not pin down while the property still holds
(`benign/<id>n/patch.diff`, `notes.md`). `lib/benign.sh` applies each to a scratch copy of the repository and runs the quick tiers it can affect;
`benign/matrix.tsv` has one line per (variation, check): exit status and number of VIOLATION lines, all 0 after the corrections described in
DESIGN.md 9.7 (the line `C15n C15 1 1` is the run before the n = 256 text check was reduced to the variable set; `benign/recheck.tsv` has the
re-run).

`owners_rounds1-4.tsv`: every change of rounds 1-4 against its owning quick check on a scratch copy (exit 1 = reported; `C01b` ended as a tool
error there because it changes the signature of `exists_impl`, which the harness called at the time -- fixed, see its meta.json).
''')
s=open(os.path.join(root,'README.md')).read()
marker="\n## Fourth round"
if marker in s:
    s=s[:s.index(marker)]
open(os.path.join(root,'README.md'),'w').write(s.rstrip('\n')+'\n'+'\n'.join(out)+'\n')
print('\n'.join(out)[:3000])
