"""C19: BDDSet against BddSet.tla."""
import json
import os

from vlib import *


def c19(run):
    t = run.tier == "thorough"
    run.rule = ("MC_BddSet: every reachable (A,B) over 2-bit (thorough also 3-bit refinement) universes x every operation incl. self-aliasing; "
                "all 8192 transitions replayed on real BDDSets sharing an environment, observed only through contains() asked twice; random "
                "histories (3 bits, 60 operations) validated by Trace_BddSet; non-trivial = transitions whose source or target set is non-empty")
    d = fresh_dir(run.prop, "mc_set")
    table = os.path.join(d, "table.json")
    res = run_tlc("MC_BddSet", cfg({"NV": 2, "Bits": 2, "Emit": True}, invariants=("Refines",), extra="PROPERTY QueriesPure"),
                  d, workers=8, env={"OUT": table}, timeout=1200)
    run.add_tlc("mc_set_bits2", res, require_actions=["Do"])
    run.spec_must_hold("mc_set_bits2", res)
    if t:
        d3 = fresh_dir(run.prop, "mc_set3")
        res3 = run_tlc("MC_BddSet", cfg({"NV": 3, "Bits": 3, "Emit": False}, invariants=("Refines",), extra="PROPERTY QueriesPure"),
                       d3, env={"OUT": "/dev/null"}, timeout=7200)
        run.add_tlc("mc_set_bits3", res3, require_actions=["Do"])
        run.spec_must_hold("mc_set_bits3", res3)
    summary, mism = run_harness(["replay-set", table])
    run.impl_traces += summary["cases"]
    run.evaluations += summary["cases"]
    run.extra["s2i"] = {k: summary[k] for k in ("cases", "mismatches", "panics", "bits")}
    for s in summary["samples"]:
        run.sample({"direction": "spec->impl", "transition": s})
    tab = json.load(open(table))
    run.nontrivial = sum(1 for st in tab["cases"] for tr in st["t"] if st["A"] or st["B"] or tr["A2"] or tr["B2"])
    for m in mism:
        calls = [{"op": "insert", "x": "A", "y": "-", "e": e} for e in m["A"]] + \
                [{"op": "insert", "x": "B", "y": "-", "e": e} for e in m["B"]] + \
                [{"op": m["op"], "x": m["x"], "y": m["y"], "e": m["e"]}]
        alias = "self" if m["x"] == m["y"] else "other"
        run.violation("set-s2i:%s:%s:%s" % (m["op"], alias, m["why"][0]),
                      "A=%s B=%s %s(%s,%s,%s): %s; expected %s got %s" % (m["A"], m["B"], m["op"], m["x"], m["y"], m["e"],
                                                                          "; ".join(m["why"]), json.dumps(m["expected"]), json.dumps(m["got"])),
                      {"mode": "set-history", "bits": 2, "calls": calls})
    # impl -> spec
    dr = fresh_dir(run.prop, "rec")
    tr = os.path.join(dr, "events.ndjson")
    s2, _ = run_harness(["record-set", tr, "3", str(2000 if t else 150), "60"])
    # wider universes (5 and 8 bits): the encoding handles every bit position the same way only if it says so
    # 10 bits: element values beyond one byte
    for bits, hists, ops in ((5, 600 if t else 60, 40), (8, 120 if t else 16, 30), (10, 40 if t else 6, 25)):
        trw = os.path.join(dr, "events_b%d.ndjson" % bits)
        sw, _ = run_harness(["record-set", trw, str(bits), str(hists), str(ops)])
        accw, rejw, tlcw, linesw = validate_trace("Trace_BddSet", trw, {"Bits": bits}, os.path.join(run.prop, "tv_b%d" % bits), shards=8, boundary='"k":"reset"')
        for i, r in enumerate(tlcw):
            run.add_tlc("trace_b%d_%d" % (bits, i), r, require_actions=["Step"])
        run.impl_traces += accw
        run.evaluations += len(linesw)
        run.extra.setdefault("i2s_wide", {})["bits=%d" % bits] = sw
        for i in rejw:
            j = i
            while j > 0 and '"k":"reset"' not in linesw[j]:
                j -= 1
            hist = [json.loads(x) for x in linesw[j + 1:i + 1]]
            rec = hist[-1]
            calls = [{"op": h["op"], "x": h["x"], "y": h["y"], "e": h["e"]} for h in hist]
            run.violation("set-i2s:bits%d:%s:%s" % (bits, rec["op"], rejw.reasons.get(i, "")),
                          "Trace_BddSet (bits=%d) rejects event %d (%s): %s" % (bits, i, rejw.reasons.get(i, ""), linesw[i].strip()[:300]),
                          {"mode": "set-history", "bits": bits, "calls": calls})
    acc, rej, tlcs, lines = validate_trace("Trace_BddSet", tr, {"Bits": 3}, os.path.join(run.prop, "tv"), shards=8, boundary='"k":"reset"')
    for i, r in enumerate(tlcs):
        run.add_tlc("trace_%d" % i, r, require_actions=["Step"])
    run.impl_traces += acc
    run.evaluations += len(lines)
    run.extra["i2s"] = s2
    run.sample({"direction": "impl->spec", "event": json.loads(lines[7])})
    for i in rej:
        j = i
        while j > 0 and '"k":"reset"' not in lines[j]:
            j -= 1
        hist = [json.loads(x) for x in lines[j + 1:i + 1]]
        rec = hist[-1]
        calls = [{"op": h["op"], "x": h["x"], "y": h["y"], "e": h["e"]} for h in hist]
        why = validate_trace.reasons.get(i, "")
        alias = "self" if rec["x"] == rec["y"] else "other"
        run.violation("set-i2s:%s:%s:%s" % (rec["op"], alias, why), "Trace_BddSet rejects event %d (%s): %s" % (i, why, lines[i].strip()[:300]),
                      {"mode": "set-history", "bits": 3, "calls": calls})
    run.exhaustive = True
    run.assumptions += ["sets are observed only through contains(); the encoding (BDDSet.bdd) is never read"]


def replay_set_history(prop, rp):
    d = fresh_dir(prop, "replay")
    cin, tr = os.path.join(d, "calls.json"), os.path.join(d, "events.ndjson")
    with open(cin, "w") as fh:
        json.dump(rp["calls"], fh)
    run_harness(["exec-set", cin, tr, str(rp["bits"])])
    acc, rej, tlcs, lines = validate_trace("Trace_BddSet", tr, {"Bits": rp["bits"]}, os.path.join(prop, "replay_tv"),
                                           shards=1, boundary='"k":"reset"')
    for i in rej:
        log("rejected: %s -- %s" % (validate_trace.reasons.get(i), lines[i].strip()[:300]))
    return len(rej) == 0


CHECKS = {"C19": c19}
REPLAYS = {"set-history": replay_set_history}
