#!/usr/bin/env python3
"""Regenerates /verif/MANIFEST.json from the table below (run after adding a check)."""
import json
import os

ROOT = os.path.dirname(os.path.dirname(os.path.abspath(__file__)))

CLAIMED = {
    "C03": ("3.C03", "MC_Bdd: TLC decides 'connective = Canon(pointwise)' for all 65 536 operand pairs of AllWF(3) x 8 connectives, not, "
            "ite on AllWF(2)^3 (thorough AllWF(3)^3); the spec's result tables are replayed case by case through the real BDDEnv "
            "(non-adjacent symbols, operands checked unchanged); recorded real calls are validated by Trace_Bdd: 400 000 (thorough 2 M) uniformly "
            "random operand pairs over 4 variables, random operands over 4, 5 and 6-7 variables.",
            "TLA+ model checking (TLC) of Bdd.tla + spec->impl table replay + impl->spec trace validation"),
    "C04": ("3.C04", "MC_Bdd: exists/all = Canon(set-level quantification) for every f in AllWF(3) and every variable list of length <= 3 "
            "over 1..4 (repeats, all orders, an unmentioned variable); tables replayed through BDDEnv::exists/all; random "
            "6-7 variable calls validated by Trace_Bdd (incl. independence of V and f unchanged when V misses the support).",
            "TLA+ model checking (TLC) + spec->impl table replay + impl->spec trace validation"),
    "C05": ("3.C05", "MC_Bdd: aln/amn/exn and the five list-vs-list comparisons equal Canon(arithmetic definition) for all lists of length "
            "<= 3 over AllWF(2), bounds -2..len+2, all list pairs of length <= 2; tables replayed through the real code; random lists of "
            "3- and 6-variable operands with extreme i64 bounds, and lists of 4..12 operands over 4 variables (repeated operands, bounds -1 and len+1) validated by Trace_Bdd; the formula language's counting forms (every builder "
            "formula of MC_Lang with a counting node, constants up to the literal cap) evaluated by the real solver and compared with Lang!Sem.",
            "TLA+ model checking (TLC) + spec->impl table replay + impl->spec trace validation"),
    "C07": ("3.C07", "MC_Bdd: the spec's model algorithm satisfies ModelOK/InferOK on all of AllWF(4); the real model()/infer() answers for every such f "
            "(65 536), for random 6-7 variable f and for 300 000 calls in ONE environment (screened by a truth-table oracle; flagged calls and a regular sample) are validated against the same predicates by Trace_Bdd (any genuine satisfying cube is "
            "accepted); rsbdd -m -t runs (also combined with -c, against the retained diagram the tool prints without -m) by Trace_Cli.",
            "TLA+ model checking (TLC) + impl->spec trace validation against the property predicate"),
    "C20": ("3.C20", "MC_Bdd: RetainR satisfies RetainOK on AllWF(4) x 3 filters; the real retain_choice_bottom_up answers for every such f (196 608 calls) "
            "and random 6-7 variable f are validated against RetainOK (direction of implication, WF, support) by Trace_Bdd; rsbdd -c runs by Trace_Cli.",
            "TLA+ model checking (TLC) + impl->spec trace validation against the property predicate"),
}

CLAIMED.update({
    "C02": ("3.C02", "MC_Bdd: |AllWF(NV)| = 2^2^NV, Canon(Sat(a)) = a on AllWF and Sat(Canon(S)) = S with Canon(S) in AllWF for every set S of assignments, i.e. Sat is a bijection (NV=3, thorough NV=4); MC_Env: I_WF and I_Canon "
            "hold in every reachable state of the environment machine (every construction route, NV=2); TLC-simulated behaviours of Env.tla "
            "(NV=3) are replayed in fresh and long-lived real environments with one variable order and results must be ==/hash-equal iff the "
            "specification's structures are equal; random 300-operation histories are validated by Trace_Env (WF of every node, equal "
            "function <=> same node over all results of the history); operations with one operand from ANOTHER environment must return the specification's canonical structure (Trace_Bdd); a sample of the quantifier / counting formula family of MC_Nest is evaluated by the real solver (constant leaf <=> valid / unsatisfiable, result ordered and reduced).",
            "TLA+ model checking (TLC) of Bdd.tla/Env.tla + spec->impl behaviour replay + impl->spec trace validation"),
    "C13": ("3.C13", "MC_Env: exhaustive exploration of the hash-consing environment machine (NV=2, bounded live handles, all operations incl. "
            "model/retain/clean/fp/drop) with invariants I_Leaves, I_Unique, I_WF, I_Canon, I_Closed and action properties append-only and "
            "history-freedom; TLC-simulated behaviours replayed step by step in fresh and long-lived real environments; real random histories "
            "(NV=6, 300 operations incl. formula evaluations sharing the environment, results being dropped, release phases) logged with pointer "
            "identities (weakly pinned), table deltas, size() and the fresh-environment result, validated event by event by Trace_Env; histories of 5 000 - 40 000 calls in one environment "
            "(node table ~10^5 entries, results dropped) screened by a truth-table oracle and validated call by call by the stateless Trace_Bdd.",
            "TLA+ model checking (TLC) of Env.tla + spec->impl behaviour replay + impl->spec trace validation with pointer identities"),
})

CLAIMED.update({
    "C19": ("3.C19", "MC_BddSet: the concrete BDDSet machine (characteristic functions on Bdd.tla) refines the abstract set machine for every reachable "
            "pair of 2-bit (thorough: 3-bit) sets x every operation incl. self-aliasing, queries are pure; every transition of the abstract "
            "state graph (8192) is replayed on real BDDSets sharing an environment and observed only through contains() asked twice; random "
            "histories over 3-, 5- and 8-bit universes are validated by Trace_BddSet.",
            "TLA+ model checking (TLC) refinement check + spec->impl transition replay + impl->spec trace validation"),
})

CLAIMED.update({
    "C01": ("3.C01", "MC_Lang: TLC checks Ev(f) = Canon(Sem(f)) -- the model of eval_recursive/replace_var against the set-based denotational "
            "semantics -- for every spine formula of depth <= 2 over {a,b,X} (1.0 M formulas, every node kind, binders, shadowing, counting, "
            "fixed points); every depth <= 1 formula and a sample of depth 2 is rendered (random operator spellings, whitespace, comments, "
            "stray characters, with/without an explicit ordering) and evaluated by the real solver, truth table compared by variable name, "
            "is_true/is_false compared; a sample of the nested fixed-point families of MC_Nest is replayed; random deep formulas (<= 6 names, monotone fixed points, families of 2-3 nested fixed points with alternation, shadowing and self-supporting bodies) are parsed and evaluated by the real code and "
            "validated by Trace_Lang against Sem.",
            "TLA+ model checking (TLC) of Lang.tla + spec->impl case replay + impl->spec trace validation"),
    "C06": ("3.C06", "MC_Lang (Mode=fix): for every spine body of depth <= 1, a seed-dependent 1/40 of the 750 k depth-2 bodies (thorough: all) and simulated depth-3 spines that are semantically monotone in X "
            "(all pairs of subsets), lfp/gfp X are the least/greatest fixed point against ALL subsets incl. every pre/post-fixed point "
            "(Knaster-Tarski), reached within |Asg|+1 iterations by Sem and by the evaluator model; same bodies evaluated by the real solver "
            "under lfp/mu/gfp/nu and three variable orders with a stall watchdog; MC_Nest: every formula of the two- and three-binder nested families (2 400 + 7 200: all kind combinations, bodies ranging over an enclosing value through a quantifier, self-supporting inner bodies) has Ev = Canon(Sem) and is replayed through the real solver; fp(a,t) call-by-call against Bdd!FpIter (Trace_Bdd); random monotone nests via "
            "Trace_Lang.",
            "TLA+ model checking (TLC) + spec->impl case replay + impl->spec trace validation"),
    "C08": ("3.C08", "MC_Syntax: every token sequence over the 20-class alphabet up to length 5 (3.4 M; thorough 6) is decided by the grammar in TLC and by the "
            "real parser (two renderings each): accepted <=> sentence and same tree; every string of <= 3 (thorough 4, sampled) pieces of the "
            "character alphabet is tokenized by both; all spellings/longest-match cases as TLC theorems; Parse(Print(t)) = t for 1.0 M trees; "
            "random, character-mutated and token-mutated texts are validated by Trace_Lang (token list, Ok/Err, tree).",
            "TLA+ model checking (TLC) of Syntax.tla + spec->impl exhaustive enumeration replay + impl->spec trace validation"),
    "C09": ("3.C09", "MC_Lang: Mentions(Ev(f)) within FV(f) within NamesOf(f) for 1.0 M formulas; the real .free_vars/.vars/support of the evaluated "
            "diagram are compared with FV/NamesOf (in id order, default and explicit ordering) for every emitted case and for random deep "
            "formulas (Trace_Lang).",
            "TLA+ model checking (TLC) + spec->impl case replay + impl->spec trace validation"),
})

CLAIMED.update({
    "C10": ("3.C10", "MC_Cli: the command-line pipeline as a TLA+ state machine (one action per stage of main) explored for 51 k configurations "
            "(formula x filter x -c x -m): the transcribed printing algorithm satisfies the acceptance predicates TableOK/VarsOK/HeaderOK. The real "
            "binary is run over a matrix of formulas x 15 filter spellings x 3 input channels x ordering files x {-t,-v,-m,-b N}; every run is one "
            "event validated by Trace_Cli, which re-tokenizes and re-parses the formula and ordering texts itself, takes the variable order the tool exports (-r, probed) as an observable constrained by C09/C11, checks "
            "header, disjoint faithful partition against Sem (tables up to 256 rows, -t and -v together), -v lines, and keeps a per-configuration stdout digest (channel / repeat independence).",
            "TLA+ model checking (TLC) of Cli.tla + impl->spec trace validation of real CLI runs"),
    "C11": ("3.C11", "Cli!IdOrder/FormulaVars specify variable ids from ordering text and formula; for every formula x ordering variant (permutation, "
            "subset, superset with unused names, duplicates, stray punctuation/keywords/numbers) the CLI run (-o) and the API route (NamedSymbol "
            "vectors under five sparse id schemes and with repeated names, with a stall watchdog) are validated by Trace_Cli: every name of the text exactly once in the exported order, listed names in file order, header = free variables in the exported order, same function as Sem under the default "
            "order, and re-importing the export reproduces the byte-identical table (digest under the same key).",
            "TLA+ specification of the ordering + impl->spec trace validation of CLI and API runs"),
    "C12": ("3.C12", "Syntax/Lang/Cli give every pipeline action an Ok/Err post-state and the trace specifications have no action for a panic. "
            "All token sequences (<= 4) and piece strings (<= 3) of the C08 universes plus seeded byte-level inputs (random bytes, invalid UTF-8, "
            "token soups, mutated formulas, extreme and mixed-width non-ASCII digit runs, unbalanced brackets, empty, nesting <= 200, <= 64 KiB) are run in-process as "
            "formula and as ordering file under catch_unwind and through the binary with random option sets (exit status 0/1 required).",
            "TLA+ totality of the specified pipeline + exhaustive enumeration replay + seeded byte-level driving validated by Trace_Lang"),
    "C14": ("3.C14", "MC_Dot: a TLA+ model of both exporters satisfies DotBddOK/DotTreeOK for every diagram over 3 (thorough 4) variables x 3 filters and "
            "every spine formula of depth <= 1 (2). Real exports: BDDGraph DOT of every diagram over 3 variables (names needing escaping) x 3 "
            "filters and SymbolicParseTree DOT of random formulas with repeated sub-terms, plus rsbdd -d/-p runs, are read back and validated by "
            "Trace_Cli: ids unique, only declared ids referenced, node-for-node equal to Canon of the function (omitted leaf per filter), "
            "unfolding of the tree graph equals the parse tree with shared identical sub-terms; six (thorough sixteen) random diagrams of ~107 000 shared nodes are exported and read back "
            "(ids declared once, only declared ids referenced, equivalent to the diagram by a simultaneous walk).",
            "TLA+ model checking (TLC) of Dot.tla + impl->spec trace validation of read-back exports"),
})

CLAIMED.update({
    "C15": ("3.C15", "Puzzles!QueensSolutions is the reference definition. For n = 1..7 (thorough 1..10) the real generator output is parsed by the real "
            "parser and MC_Models decides exact model-set equality: TLC's pruned search machine over partial assignments visits every model "
            "(invariant Sound: it is a placement of n non-attacking queens; Lemma: three-valued evaluation agrees with full evaluation) and "
            "ASSUME Complete evaluates the tree under every reference solution. For n up to 16 (thorough 32) Trace_Puzzle checks the structural "
            "conditions that imply equality (attack-pair coverage, '= 1' list per row and column, no list joins non-attacking cells); rsbdd -t -ft "
            "on the generated file must list exactly the solutions (n = 4, 5); variable-set check at n = 256.",
            "TLA+ model checking (TLC search machine) of the emitted formula against the puzzle definition + trace validation"),
    "C16": ("3.C16", "Puzzles!Cliques/MaxCliques with the direction semantics of -u. max_clique_gen is run on every edge list of <= 2 records (sample of 3; "
            "thorough: all <= 4) over 3 vertices, random 4-vertex (thorough 5-vertex) lists, x {-u} x {-a}, with vertex names from pools containing "
            "a v_ prefix collision; the output is parsed by the real parser and Trace_Puzzle compares the models of the tree (Lang!Sem, bound "
            "copies included), projected to vertex variables with unmentioned vertices free, with the reference cliques.",
            "TLA+ specification of the puzzle + impl->spec trace validation using the denotational semantics"),
    "C17": ("3.C17", "Puzzles!SudokuSolutions (cell-by-cell, independent index arithmetic). For r = 1, 2: sudoku_gen output for the empty grid, single hints, "
            "random hint patterns incl. contradictory / full / short / over-long texts and 8 blank symbols incl. the quote is parsed by the real "
            "parser (blank symbols of 1-4 bytes, non-ASCII whitespace); MC_Models decides exact model-set equality (search machine + Complete). "
            "r = 2, 3 (thorough 4): the formula is exactly the exact-cover encoding (one '= 1' list per cell / row-digit / column-digit / box-digit "
            "plus the givens); r = 3: solved grids satisfy it, near misses (cell swaps, band swaps) falsify it (Trace_Puzzle).",
            "TLA+ model checking (TLC search machine) of the emitted formula against the puzzle definition + trace validation"),
    "C18": ("3.C18", "Puzzles!GraphOK/Feasible/ConvertSpec/KColourable. Every request V in 0..5 (quick: sampled above 3) x E in 0..V(V-1)+2 x {-u} x "
            "{--complete} x {--dot} is executed 3 (thorough 12) times; every run is one event validated by Trace_Puzzle (exactly E distinct edges "
            "between distinct v0..v(V-1), orientation rule, completeness, infeasible <=> exit 1 and empty output). --convert and --colors k on "
            "small input graphs: ConvertSpec equality and 'covering clique exists <=> k-colourable' by brute force in TLC.",
            "TLA+ specification of the requested graph + impl->spec trace validation of every run"),
})

PENDING_REASON = "machinery for this property is not built yet in this revision (planned in DESIGN.md section 3); no claim is made"

ALL = ["C%02d" % i for i in range(1, 21)]

NOTE = ("Trusted base: TLC 1.8 and the TLA+ standard/community modules; the Rust harness (/verif/harness) that builds operands with "
        "mk_choice, injects variables order-preservingly and logs calls; the Python orchestrator's parsers. Bounds are those stated in "
        "level_claimed.text; beyond them coverage is seeded random via trace validation.")


def main():
    checks = []
    for pid, (ref, text, tech) in sorted(CLAIMED.items()):
        checks.append({
            "property_id": pid,
            "quick_cmd": "./check %s --tier quick" % pid,
            "thorough_cmd": "./check %s --tier thorough" % pid,
            "evidence_file": "/verif/evidence/%s.json" % pid,
            "replay_cmd_template": "./check %s --replay {path}" % pid,
            "engine": "tlc-spec+rsbdd-conform",
            "level_claimed": {"category": "model_checking", "text": text, "design_ref": "DESIGN.md section " + ref},
            "level_note": NOTE,
            "technique": tech,
        })
    man = {
        "version": 1,
        "setup_cmd": "./setup.sh",
        "hooks": {
            "guard": "rsbdd_verif",
            "enable": "the harness crate passes --cfg rsbdd_verif via /verif/harness/.cargo/config.toml rustflags; "
                      "no hook is currently needed (all observed state is public API), so no source commit carries the guard",
            "baseline_off_cmd": "cd /repo && cargo test --workspace --no-fail-fast --offline",
            "source_commits": [],
            "add_only": True,
        },
        "engines": [
            {"name": "tlc-spec", "path": "/verif/spec", "serves_properties": sorted(CLAIMED),
             "kind_free_text": "explicit TLA+ specification (Bdd, Env, Lang, Syntax, Cli, BddSet, Puzzles ...) checked with TLC; MC_* exhaustive instances, Trace_* trace specifications"},
            {"name": "rsbdd-conform", "path": "/verif/harness", "serves_properties": sorted(CLAIMED),
             "kind_free_text": "Rust conformance harness with a path dependency on /repo: replays TLC-generated cases through the real code and records real calls as ndjson traces"},
            {"name": "check", "path": "/verif/check", "serves_properties": sorted(CLAIMED),
             "kind_free_text": "Python orchestrator: builds, runs TLC and the harness, compares, writes evidence, prints VIOLATION / KNOWN-FINDING lines"},
        ],
        "checks": checks,
        "notes": "exit codes: 0 held, 1 violation (VIOLATION line), 2 tooling failure. VERIF_SEED seeds TLC and all drivers.",
        "not_applicable": [{"property_id": p, "reason": PENDING_REASON} for p in ALL if p not in CLAIMED],
    }
    with open(os.path.join(ROOT, "MANIFEST.json"), "w") as fh:
        json.dump(man, fh, indent=1)
        fh.write("\n")


if __name__ == "__main__":
    main()
