"""./check selftest -- demonstrates that the specification is bound to the code: every trace
specification must REJECT a recorded trace in which one field was corrupted, and the spec->impl
replays must REPORT a case table in which one expected entry was altered.  (Development aid; not a
property check.  Exit 0 = every corruption was noticed.)"""
import json
import os
import random

from vlib import *


def flip_leaf(n):
    if len(n) == 1:
        return [1 - n[0]]
    return [n[0], flip_leaf(n[1]), n[2]]


def corrupt_and_validate(name, module, trace, constants, mutate, boundary=None, extra_cfg="", pick=None):
    lines = [l for l in open(trace) if l.strip()]
    rnd = random.Random(seed())
    cand = [i for i, l in enumerate(lines) if (pick(json.loads(l)) if pick else True)]
    i = rnd.choice(cand)
    rec = json.loads(lines[i])
    mutate(rec)
    lines[i] = json.dumps(rec) + "\n"
    d = fresh_dir("selftest", name + "_corrupt")
    p = os.path.join(d, "corrupt.ndjson")
    with open(p, "w") as fh:
        fh.writelines(lines)
    acc, rej, tlcs, _ = validate_trace(module, p, constants, os.path.join("selftest", name + "_tv"), shards=4, boundary=boundary, extra_cfg=extra_cfg)
    ok = i in rej
    log("selftest %-28s corrupted record %d -> %s (rejected: %s)" % (name, i, "NOTICED" if ok else "MISSED", list(rej)[:3]))
    return ok


def selftest(run):
    results = {}
    # Trace_Bdd: flip one leaf of a recorded result
    d = fresh_dir("selftest", "bdd")
    tr = os.path.join(d, "t.ndjson")
    run_harness(["record-bdd", tr, "5", "random", "60", "bin,not,ite,quant,cc,cl,model,retain"])
    def m_bdd(r):
        key = "r" if "r" in r else "m"
        r[key] = flip_leaf(r[key])
    results["Trace_Bdd"] = corrupt_and_validate("bdd", "Trace_Bdd", tr, {"NV": 5}, m_bdd, pick=lambda r: r["k"] != "panic")
    # Trace_Env: swap hi/lo of one logged node, drop one event
    d = fresh_dir("selftest", "env")
    tr = os.path.join(d, "t.ndjson")
    run_harness(["record-env", tr, "4", "2", "80"])
    def m_env(r):
        row = [x for x in r["rows"] if len(x) == 4][0]
        row[2], row[3] = row[3], row[2]
    results["Trace_Env(swap hi/lo)"] = corrupt_and_validate("env", "Trace_Env", tr, {"NV": 4}, m_env, boundary='"k":"reset"', extra_cfg="CONSTANT NameSeq <- XS4",
                                                             pick=lambda r: r["k"] == "op" and any(len(x) == 4 for x in r.get("rows", [])))
    def m_env2(r):
        r["fresh"] = flip_leaf(r["fresh"])
    results["Trace_Env(fresh result)"] = corrupt_and_validate("env2", "Trace_Env", tr, {"NV": 4}, m_env2, boundary='"k":"reset"', extra_cfg="CONSTANT NameSeq <- XS4",
                                                               pick=lambda r: r["k"] == "op")
    # Trace_BddSet: change one observed membership bit
    d = fresh_dir("selftest", "set")
    tr = os.path.join(d, "t.ndjson")
    run_harness(["record-set", tr, "3", "4", "40"])
    def m_set(r):
        r["memA1"][3] = not r["memA1"][3]
    results["Trace_BddSet"] = corrupt_and_validate("set", "Trace_BddSet", tr, {"Bits": 3}, m_set, boundary='"k":"reset"',
                                                    pick=lambda r: r["k"] == "op")
    # Trace_Lang: flip one truth-table bit / change a token
    d = fresh_dir("selftest", "lang")
    tr = os.path.join(d, "t.ndjson")
    prog = os.path.join(d, "p.txt")
    run_harness(["record-lang", tr, "120", "3", prog])
    def m_lang(r):
        r["tt"][0] = 1 - r["tt"][0]
    # records have 1..3 names: validate the k=3 group only
    lines = [l for l in open(tr) if len(json.loads(l).get("vars", [])) == 3]
    with open(tr, "w") as fh:
        fh.writelines(lines)
    results["Trace_Lang(truth table)"] = corrupt_and_validate("lang", "Trace_Lang", tr, {"NV": 3}, m_lang, extra_cfg="CONSTANT NameSeq <- NS3",
                                                               pick=lambda r: r["k"] == "formula")
    d = fresh_dir("selftest", "text")
    tr = os.path.join(d, "t.ndjson")
    run_harness(["record-text", tr, "120"])
    def m_text(r):
        r["parse_ok"] = not r["parse_ok"]
    results["Trace_Lang(parse outcome)"] = corrupt_and_validate("text", "Trace_Lang", tr, {"NV": 1}, m_text, extra_cfg="CONSTANT NameSeq <- NS1",
                                                                 pick=lambda r: r["k"] == "text")
    # spec -> impl: alter one expected entry of a case table; the harness must report it
    import checks_bdd
    r2 = Run("selftest", "quick")
    tables, res = checks_bdd.mc_bdd(r2, "C04", 2, xv=3, emit=True, name="mc_selftest")
    f = sorted(x for x in os.listdir(tables) if x.startswith("row"))[3]
    row = json.load(open(os.path.join(tables, f)))
    row["q"][2]["e"] = (row["q"][2]["e"] % 16) + 1
    json.dump(row, open(os.path.join(tables, f), "w"))
    summary, mism = run_harness(["replay-bdd", tables])
    results["replay-bdd(table entry)"] = len(mism) >= 1
    log("selftest %-28s altered expected entry -> %s" % ("replay-bdd", "NOTICED" if mism else "MISSED"))
    bad = [k for k, v in results.items() if not v]
    run.extra["selftest"] = results
    if bad:
        raise ToolError("selftest: corruption not noticed by %s" % bad)
    print("selftest ok: %d corruptions, all noticed" % len(results))


CHECKS = {"selftest": selftest}
