"""C10 (truth table), C11 (ordering), C14 (Graphviz), CLI parts of C07/C20: Cli.tla / Dot.tla against the rsbdd binary."""
import hashlib
import json
import os
import random
import re
import subprocess
from concurrent.futures import ThreadPoolExecutor

from vlib import *

FILTER_SPELLINGS = {
    "True": ["true", "True", "t", "T", "1"],
    "False": ["false", "False", "f", "F", "0"],
    "Any": ["any", "Any", "a", "A", "*"],
}

# ---------------------------------------------------------------------------
# small trusted parsers


def parse_stdout(out):
    """-> (export_names, header, rows, vlines); rows: [cells, result_bool]"""
    export, header, rows, vlines = [], None, [], []
    lines = out.split("\n")
    if lines and lines[-1] == "":
        lines = lines[:-1]
    i = 0
    while i < len(lines) and not lines[i].startswith("|") and not lines[i].endswith(";"):
        export.append(lines[i])
        i += 1
    if i < len(lines) and lines[i].startswith("|"):
        cells = [c.strip() for c in lines[i].strip().strip("|").split("|")]
        header = cells[:-1]
        if cells[-1] != "*":
            raise ValueError("table header does not end with *")
        i += 1
        if i >= len(lines) or not re.fullmatch(r"(\|-+)+\|", lines[i]):
            raise ValueError("table separator missing")
        i += 1
        while i < len(lines) and lines[i].startswith("|"):
            cells = [c.strip() for c in lines[i].strip().strip("|").split("|")]
            if cells[-1] not in ("True", "False"):
                raise ValueError("bad result cell %r" % cells[-1])
            rows.append([cells[:-1], cells[-1] == "True"])
            i += 1
    while i < len(lines):
        ln = lines[i]
        if not ln.endswith(";"):
            raise ValueError("unexpected line %r" % ln)
        items = [x for x in ln[:-1].split(", ") if x != ""]
        vlines.append([[x for x in items if not x.endswith("*")], [x[:-1] for x in items if x.endswith("*")]])
        i += 1
    return export, header, rows, vlines


def rust_unescape(s):
    """inverse of Rust's str::escape_default"""
    out = []
    i = 0
    while i < len(s):
        c = s[i]
        if c != "\\":
            out.append(c)
            i += 1
            continue
        n = s[i + 1]
        if n == "u":
            j = s.index("}", i)
            out.append(chr(int(s[i + 3:j], 16)))
            i = j + 1
        else:
            out.append({"n": "\n", "t": "\t", "r": "\r", "'": "'", '"': '"', "\\": "\\", "0": "\0"}[n])
            i += 2
    return "".join(out)


NODE_RE = re.compile(r'^\s*(\w+)\[label="((?:[^"\\]|\\.)*)"\];$')
EDGE_RE = re.compile(r'^\s*(\w+) -> (\w+)\[label="((?:[^"\\]|\\.)*)"\];$')


def parse_dot(text):
    lines = text.strip().split("\n")
    if not re.fullmatch(r"digraph \w+ \{", lines[0]) or lines[-1] != "}":
        raise ValueError("not a digraph")
    nodes, edges = [], []
    for ln in lines[1:-1]:
        m = EDGE_RE.match(ln)
        if m:
            edges.append([m.group(1), m.group(2), rust_unescape(m.group(3))])
            continue
        m = NODE_RE.match(ln)
        if m:
            nodes.append([m.group(1), rust_unescape(m.group(2))])
            continue
        raise ValueError("unreadable DOT line %r" % ln)
    return {"nodes": nodes, "edges": edges}


BINOPS = {"And": "and", "Or": "or", "Xor": "xor", "Nor": "nor", "Nand": "nand", "Implies": "implies", "ImpliesInv": "impliesinv", "Iff": "iff"}
CMPS = {"AtMost": "atmost", "LessThan": "lessthan", "AtLeast": "atleast", "MoreThan": "morethan", "Exactly": "exactly"}


def tree_label(l):
    if l.startswith("Var "):
        return ["var", l[4:]]
    if l.startswith("Ref "):
        return ["ref", l[4:]]
    if l in ("True", "False"):
        return ["const", l == "True"]
    if l == "Not":
        return ["not"]
    if l == "Ite":
        return ["ite"]
    if l in BINOPS:
        return ["bin", BINOPS[l]]
    m = re.fullmatch(r"(Exists|Forall) \[(.*)\]", l)
    if m:
        return ["q", m.group(1).lower(), [x for x in m.group(2).split(", ") if x != ""]]
    m = re.fullmatch(r"(GFP|LFP) (.*)", l)
    if m:
        return ["fix", m.group(2), m.group(1) == "GFP"]
    m = re.fullmatch(r"(\w+) (\d+)", l)
    if m and m.group(1) in CMPS:
        return ["cc", CMPS[m.group(1)], min(int(m.group(2)), 1000000)]
    if l in CMPS:
        return ["cv", CMPS[l]]
    return ["unknown", l]


def tree_edge_label(l):
    if l in ("L", "R", "If", "Then", "Else", ""):
        return [l]
    m = re.fullmatch(r"(L|R)?\{(\d+)\}", l)
    if m:
        return [(m.group(1) or "") + "i", int(m.group(2))]
    return ["unknown", l]


def ptree_graph(text):
    g = parse_dot(text)
    return {"nodes": [[i, tree_label(l)] for i, l in g["nodes"]], "edges": [[a, b, tree_edge_label(l)] for a, b, l in g["edges"]]}


def bdd_graph(text, canon):
    g = parse_dot(text)
    return {"nodes": [[i, l if l in ("true", "false") else canon.get(l, "?" + l)] for i, l in g["nodes"]], "edges": g["edges"]}


# ---------------------------------------------------------------------------
# running the binary

def run_rsbdd(args, stdin=None, timeout=60):
    try:
        p = subprocess.run([repo_bin("rsbdd")] + args, input=stdin, stdout=subprocess.PIPE, stderr=subprocess.DEVNULL, timeout=timeout)
        return p.returncode, p.stdout
    except subprocess.TimeoutExpired:
        return -999, b""


def chars(s):
    return list(s)


STRATIFIED = [
    "true", "false", "a", "-a", "a & b", "a | b | c", "(a => b) & (b => c)", "a ^ b ^ c ^ d", "exists a # a & b",
    "forall b # a | b", "c | exists a, b # a & b & c", "[a, b, c] = 1", "[a, b, c, d] >= 2", "[a, b] < [c, d]",
    "if a then b else c", "lfp X # a | (X & b)", "gfp X # X", "b & (mu X # a | exists a # X)", "(exists z # z) & a & z",
    "a <=> (b nand c)", "[a, a, b] > 1", "nu Y # (a | b) & Y", "-(x1 & x2) | {undefined}", "forall # a", "[] = 0",
    "q1 & -q1", "a | -a", "exists a # forall b # a ^ b ^ c",
]


def order_variants(names, rnd):
    """ordering file texts: permutation / reversal / subset / superset (unused names before, between, after) /
    duplicates / stray punctuation"""
    out = [None]
    if not names:
        return out + ["zz yy"]
    perm = names[:]
    rnd.shuffle(perm)
    out.append(" ".join(names))
    out.append("\n".join(reversed(names)))
    out.append(", ".join(perm))
    out.append(" ".join(perm[: max(1, len(perm) // 2)]))
    sup = ["u0"] + perm[:1] + ["u1"] + perm[1:] + ["u2"]
    out.append(" ; ".join(sup))
    out.append(" ".join(perm + perm[:1] + ["u9"] + perm[-1:]))
    out.append("  $ ".join(reversed(names)) + " .. & and ( 12 \"comment\" ")
    return out


class CliCampaign:
    def __init__(self, run, label):
        self.run = run
        self.label = label
        self.d = fresh_dir(run.prop, "cli_" + label)
        self.items = []     # (text, order_text, opts dict, channel, bench, key)
        self.rnd = random.Random(seed() * 7919 + 13)
        self.n = 0

    def add(self, text, order, filt="Any", retain="Any", model=False, table=True, vars_=False, export=False, dot=False,
            ptree=False, channel="evaluate", bench=None, key_extra="", order_for_key=None, api=False, base=None):
        fsp = self.rnd.choice(FILTER_SPELLINGS[filt])
        rsp = self.rnd.choice(FILTER_SPELLINGS[retain])
        okey = order if order_for_key is None else order_for_key
        key = hashlib.sha1(json.dumps([text, okey, filt, retain, model, table, vars_, export, key_extra]).encode()).hexdigest()[:20]
        self.items.append(dict(text=text, order=order, filter=filt, fsp=fsp, retain=retain, rsp=rsp, model=model, table=table,
                               vars=vars_, export=export, dot=dot, ptree=ptree, channel=channel, bench=bench, key=key, api=api, base=base))
        return len(self.items) - 1

    def execute(self):
        """run the binary for every item (16 parallel), then describe all inputs with the harness"""
        build_repo_bins()     # always from /repo's current working tree
        def one(ix):
            it = self.items[ix]
            base = os.path.join(self.d, "r%d" % ix)
            args = []
            stdin = None
            if it["channel"] == "evaluate":
                args.append("--evaluate=" + it["text"])
            elif it["channel"] == "file":
                fp = base + ".txt"
                with open(fp, "w") as fh:
                    fh.write(it["text"])
                args.append(fp)
            else:
                stdin = it["text"].encode()
            if it["order"] is not None:
                op = base + ".ord"
                with open(op, "w") as fh:
                    fh.write(it["order"])
                args += ["-o", op]
            if it["table"]:
                args.append("-t")
            if it["vars"]:
                args.append("-v")
            if it["model"]:
                args.append("-m")
            if it["export"]:
                args.append("-r")
            if it["filter"] != "Any" or self.rnd.random() < 0.3:
                args += ["-f", it["fsp"]]
            if it["retain"] != "Any":
                args += ["-c", it["rsp"]]
            if it["bench"] is not None:
                args += ["-b", str(it["bench"])]
            if it["dot"]:
                args += ["-d", base + ".dot"]
            if it["ptree"]:
                args += ["-p", base + ".ptree"]
            rc, out = run_rsbdd(args, stdin)
            it["exit"] = rc
            it["stdout"] = out
            it["argv"] = args
            for k, ext in (("dot_text", ".dot"), ("ptree_text", ".ptree")):
                p = base + ext
                it[k] = open(p).read() if os.path.exists(p) else None
            return ix

        with ThreadPoolExecutor(max_workers=NCPU) as ex:
            list(ex.map(one, range(len(self.items))))
        din = os.path.join(self.d, "describe_in.json")
        dout = os.path.join(self.d, "describe_out.ndjson")
        prog = os.path.join(self.d, "describe_progress.txt")
        no_api = set()
        for attempt in range(12):
            with open(din, "w") as fh:
                json.dump([{"text": it["text"], "order": it["order"], "no_api": (i in no_api) or not it["api"]}
                           for i, it in enumerate(self.items)], fh)
            try:
                run_harness(["describe", din, dout, prog], timeout=240)
                break
            except subprocess.TimeoutExpired:
                # the API route (NamedSymbol ordering) of one item does not terminate: data, not a tool failure
                i = int(open(prog).read().strip())
                it = self.items[i]
                if i in no_api:
                    raise ToolError("describe hangs on item %d even without the API route: %r" % (i, it["text"]))
                no_api.add(i)
                self.run.violation("cli:%s:API route does not terminate" % self.label,
                                   "ParsedFormula::new with a NamedSymbol ordering / eval does not terminate for %r, ordering %r" % (it["text"], it["order"]),
                                   {"mode": "cli-run", "item": {"text": it["text"], "order": it["order"], "argv": ["-t"], "filter": "Any", "retain": "Any", "model": False}})
        else:
            raise ToolError("describe: too many hanging items")
        descs = [json.loads(l) for l in open(dout)]
        for it, dsc in zip(self.items, descs):
            it["desc"] = dsc

    def events(self):
        """-> dict k (number of names) -> list of event dicts; violations that need no TLC are reported directly"""
        groups = {}
        for it in self.items:
            dsc = it["desc"]
            # exit status: 0 = Ok, any other ordinary status = error exit (normalised to 1); 101 (Rust panic),
            # statuses >= 128 / negative (signals) and timeouts are abnormal
            ex = it["exit"]
            ev = {"k": "run", "key": it["key"], "exit": 0 if ex == 0 else (1 if (0 < ex < 128 and ex != 101) else 99),
                  "has_order": it["order"] is not None, "order_chars": chars(it["order"] or ""), "formula_chars": chars(it["text"]),
                  "filter": it["filter"], "retain": it["retain"], "model": it["model"], "argv": it["argv"], "text": it["text"], "order": it["order"] if it["order"] is not None else ""}
            try:
                so = it["stdout"].decode("utf-8")
            except UnicodeDecodeError:
                so = None
            ev["stdout_empty"] = (it["stdout"] == b"")
            ev["digest"] = hashlib.sha1(it["stdout"]).hexdigest()[:16]
            names = dsc.get("names", [])
            canon = {n: "n%d" % (i + 1) for i, n in enumerate(names)}
            ev["names"] = names
            ev["ast"] = dsc.get("ast", [])
            ev.update(has_base=False, base_rows=[])
            ev.update(has_table=False, has_vars=False, has_export=False, has_dot=False, has_ptree=False, has_api=False,
                      header=[], rows=[], vlines=[], order_export=[], dot={"nodes": [], "edges": []}, ptree={"nodes": [], "edges": []},
                      api_tt=[], api_ok=True)
            bad = None
            if it["exit"] == 0 and so is not None:
                try:
                    export, header, rows, vlines = parse_stdout(so)
                    if it["export"]:
                        ev["has_export"] = True
                        ev["order_export"] = export
                    elif export:
                        raise ValueError("unexpected leading lines %r" % export[:2])
                    if it["table"]:
                        if header is None:
                            raise ValueError("no table printed")
                        if any(h not in canon for h in header):
                            raise ValueError("header names a variable that is not in the formula: %r" % header)
                        ev["has_table"] = True
                        ev["header"] = [canon[h] for h in header]
                        ev["rows"] = rows
                    if it["vars"]:
                        ev["has_vars"] = True
                        ev["vlines"] = [[[canon.get(x, "?" + x) for x in a], [canon.get(x, "?" + x) for x in b]] for a, b in vlines]
                    if it["dot"]:
                        ev["has_dot"] = True
                        ev["dot"] = bdd_graph(it["dot_text"], canon)
                    if it["ptree"]:
                        ev["has_ptree"] = True
                        g = ptree_graph(it["ptree_text"])
                        # names in the tree are canonicalised like the tree itself
                        def cn(lab):
                            if lab[0] == "var":
                                return ["var", canon.get(lab[1], lab[1])]
                            if lab[0] == "q":
                                return ["q", lab[1], [canon.get(x, x) for x in lab[2]]]
                            if lab[0] == "fix":
                                return ["fix", canon.get(lab[1], lab[1]), lab[2]]
                            return lab
                        ev["ptree"] = {"nodes": [[i, cn(l)] for i, l in g["nodes"]], "edges": g["edges"]}
                except (ValueError, KeyError, IndexError, TypeError) as ex:
                    bad = "unreadable output: %s" % ex
            if it["api"] and dsc.get("parse_ok"):
                api = dsc.get("api", {})
                if api.get("skipped"):
                    pass
                elif "panic" in api:
                    bad = bad or ("API route panicked: %s" % api["panic"])
                else:
                    ev["has_api"] = True
                    ev["api_tt"] = api["tt"]
                    ev["api_ok"] = api["ok"]
            if it.get("base") is not None and it["exit"] == 0:
                b = self.items[it["base"]]
                try:
                    bexp, bheader, brows, bvl = parse_stdout(b["stdout"].decode("utf-8"))
                    if b["exit"] == 0 and bheader is not None and [canon[h] for h in bheader] == ev["header"]:
                        ev["has_base"] = True
                        ev["base_rows"] = brows
                except (ValueError, KeyError, UnicodeDecodeError):
                    pass
            if bad:
                self.run.violation("cli:%s:unreadable" % self.label, "%s (argv %s)" % (bad, it["argv"]),
                                   {"mode": "cli-run", "item": {k: it[k] for k in ("text", "order", "argv", "filter", "retain", "model")}})
                continue
            k = max(1, len(names))
            groups.setdefault(k, []).append(ev)
        return groups


def validate_cli_groups(run, groups, label, owners):
    """events with the same key must meet in one TLC process: shard by key"""
    d = fresh_dir(run.prop, "tv_" + label)
    jobs = []
    for k, evs in sorted(groups.items()):
        if k > 6:
            continue
        nshards = max(1, min(8, len(evs) // 60))
        shards = [[] for _ in range(nshards)]
        for ev in evs:
            shards[int(ev["key"][:6], 16) % nshards].append(ev) if ev.get("k") == "run" else shards[hash(json.dumps(ev, sort_keys=True)) % nshards].append(ev)
        for si, sh in enumerate(shards):
            if not sh:
                continue
            path = os.path.join(d, "k%d_s%d.ndjson" % (k, si))
            with open(path, "w") as fh:
                for ev in sh:
                    fh.write(json.dumps(ev) + "\n")
            jobs.append((k, si, path, sh))

    def one(job):
        k, si, path, sh = job
        return job, validate_trace("Trace_Cli", path, {"NV": k}, os.path.join(run.prop, "tv_%s_k%d_s%d" % (label, k, si)),
                                   shards=1, extra_cfg="CONSTANT NameSeq <- NS%d" % k)

    with ThreadPoolExecutor(max_workers=6) as ex:
        results = list(ex.map(one, jobs))
    total = 0
    for (k, si, path, sh), (acc, rej, tlcs, lines) in results:
        for r in tlcs:
            run.add_tlc("trace_%s_k%d_%d" % (label, k, si), r, require_actions=["Step"])
        run.impl_traces += acc
        total += len(lines)
        for i in rej:
            ev = sh[i]
            why = rej.reasons.get(i, "")
            if why.startswith("specification:") or why.startswith("harness:"):
                raise ToolError("Trace_Cli: %s on %r" % (why, ev.get("text")))
            owner = owner_of(why)
            if owner in owners:
                desc = "Trace_Cli rejects %s: %s" % (ev.get("k"), why)
                if ev.get("k") == "run":
                    desc += " -- rsbdd %s (order file %r)" % (" ".join(ev["argv"]), ev["order"])
                    rp = {"mode": "cli-run", "item": {"text": ev["text"], "order": ev["order"] if ev["has_order"] else None, "argv": ev["argv"],
                                                      "filter": ev["filter"], "retain": ev["retain"], "model": ev["model"]}}
                else:
                    rp = {"mode": "dot-case", "record": {k2: ev[k2] for k2 in ev if k2 in ("k", "text", "filter", "tt", "names")}}
                run.violation("cli:%s:%s" % (label, why), desc[:700], rp)
    run.evaluations += total
    return total


def owner_of(why):
    if why.startswith("-m"):
        return "C07"
    if why.startswith("-c"):
        return "C20"
    if why.startswith("-d") or why.startswith("-p") or "exported graph" in why:
        return "C14"
    if why.startswith("variable ids") or why.startswith("-r") or why.startswith("API") or "re-imported" in why:
        return "C11"
    if "abnormal exit" in why or "panic" in why:
        return "C12"
    if "parse tree" in why or "not a formula" in why or "valid input" in why:
        return "C08"
    return "C10"


def formulas_for(run, n_random, max_names):
    d = fresh_dir(run.prop, "formulas")
    p = os.path.join(d, "f.json")
    run_harness(["gen-formulas", p, str(n_random), str(max_names)])
    return STRATIFIED + json.load(open(p))


def names_of_formula(text):
    """cheap name extraction for building ordering files (the real id order is re-derived by TLC)"""
    kw = {"true", "false", "not", "and", "or", "xor", "nor", "nand", "implies", "in", "iff", "eq", "exists", "any", "forall", "all",
          "if", "then", "else", "gfp", "nu", "lfp", "mu"}
    txt = re.sub(r'"[^"]*"', " ", text)
    txt = re.sub(r"\{[\w']+\}", " ", txt)
    out = []
    for w in re.findall(r"[\w']+", txt):
        if w in kw or w[0].isdigit():
            continue
        if w not in out:
            out.append(w)
    return out


def c10(run):
    t = run.tier == "thorough"
    run.rule = ("MC_Cli: pipeline machine x {filter} x {-c} x {-m} for every spine formula of depth <= 1 (51 k configurations): the model's table "
                "satisfies TableOK/VarsOK/ModelTableOK/RetainTableOK; real binary: stratified + random formulas x 15 filter spellings x 3 input "
                "channels x orderings (absent/permutation/subset/superset/duplicates) x {-t,-v,-m,-b 1,-b 3}; every run validated by Trace_Cli "
                "(spec re-tokenizes and re-parses the texts), channel/repeat independence by stdout digest per configuration key; "
                "non-trivial = runs that printed a table with >= 2 rows")
    mc_cli(run)
    camp = CliCampaign(run, "table")
    rnd = camp.rnd
    for text in formulas_for(run, 260 if t else 45, 6):
        names = names_of_formula(text)
        ovs = order_variants(names, rnd)
        o1 = rnd.choice(ovs)
        # same configuration through the three channels and with repetitions
        for ch, b in (("evaluate", None), ("file", None), ("stdin", None), ("evaluate", 1), ("file", 3)):
            camp.add(text, o1, channel=ch, bench=b)
        for flt in ("True", "False"):
            camp.add(text, rnd.choice(ovs), filt=flt, channel=rnd.choice(["evaluate", "file", "stdin"]))
            camp.add(text, o1, filt=flt, channel="stdin", bench=2)
            camp.add(text, o1, filt=flt, channel="file")
        camp.add(text, rnd.choice(ovs), vars_=True, table=False)
        camp.add(text, rnd.choice(ovs), vars_=True, table=True, filt="True")
        camp.add(text, rnd.choice(ovs), model=True, filt=rnd.choice(["Any", "True"]))
        if t:
            for o in ovs:
                camp.add(text, o, filt=rnd.choice(["Any", "True", "False"]))
    camp.execute()
    groups = camp.events()
    n = validate_cli_groups(run, groups, "table", {"C10", "C08", "C12"})
    run.nontrivial = sum(1 for g in groups.values() for ev in g if len(ev["rows"]) >= 2)
    run.sample({"direction": "impl->spec", "run": {k: v for k, v in groups[min(groups)][0].items() if k in ("argv", "order", "header", "rows", "exit")}})
    big = max(groups)
    run.sample({"direction": "impl->spec", "run": {k: v for k, v in groups[big][len(groups[big]) // 2].items() if k in ("argv", "order", "header", "rows", "exit")}})
    run.extra["cli_runs"] = sum(len(g) for g in groups.values())
    run.assumptions += ["the Markdown table / -v line reader in lib/checks_cli.py is trusted",
                        "the harness's canonical renaming (names by id -> n1..nk) is re-derived and checked by Trace_Cli"]


def mc_cli(run, depth=1):
    d = fresh_dir(run.prop, "mc_cli")
    c = cfg({"NV": 3, "MaxDepth": depth}, invariants=("OutputOK", "NoError"),
            extra='CONSTANT NameSeq <- NS_abX\nCONSTANT FixVars = {"X", "b"}')
    res = run_tlc("MC_Cli", c, d, timeout=3000)
    run.add_tlc("mc_cli", res, require_actions=["Grow", "Configure", "DoParse", "DoEval", "DoRetain", "DoModel", "DoPrint"])
    run.spec_must_hold("mc_cli", res)


def c11(run):
    t = run.tier == "thorough"
    run.rule = ("orderings for %s formulas: every variant (absent, identity, reversal, permutation, subset, superset with unused names "
                "before/between/after, duplicates, stray punctuation/keywords/numbers/comments) as file (CLI -o) and as NamedSymbol vector "
                "(API, ids 5,9,13..): Trace_Cli re-derives the id order from the ordering text (Cli!IdOrder) and requires names in id order, "
                "header order, same function (TableOK against Sem), -r export = id order, re-import of the export gives the identical "
                "table (digest); non-trivial = runs with an ordering file that changes the default order") % ("~300" if t else "~70")
    mc_cli(run)
    camp = CliCampaign(run, "order")
    rnd = camp.rnd
    changed = 0
    for text in formulas_for(run, 270 if t else 45, 6):
        names = names_of_formula(text)
        for o in order_variants(names, rnd):
            camp.add(text, o, api=True, channel=rnd.choice(["evaluate", "file", "stdin"]))
            if o is not None and names and o.split()[0] != names[0]:
                changed += 1
            camp.add(text, o, table=False, export=True)
    camp.execute()
    # re-import: feed the -r output back through -o; must reproduce the identical table (same key)
    second = CliCampaign(run, "reimport")
    for a, b in zip(camp.items[0::2], camp.items[1::2]):
        if b["exit"] == 0 and a["exit"] == 0:
            exported = b["stdout"].decode("utf-8", "replace")
            second.items.append(dict(a, order=exported, channel="evaluate", api=False))
    second.execute()
    groups = camp.events()
    for k, evs in second.events().items():
        groups.setdefault(k, []).extend(evs)
    validate_cli_groups(run, groups, "order", {"C11", "C10", "C12"})
    run.nontrivial = changed
    run.extra["cli_runs"] = sum(len(g) for g in groups.values())
    g0 = groups[max(groups)]
    run.sample({"direction": "impl->spec", "run": {k: v for k, v in g0[len(g0) // 3].items() if k in ("argv", "order", "names", "header", "order_export")}})


def c14(run):
    t = run.tier == "thorough"
    run.rule = ("library: BDDGraph DOT for every diagram over 3 (thorough: 4, sampled) variables whose names need escaping x 3 filters, read "
                "back and compared node for node with Canon of its truth table (DotBddOK); SymbolicParseTree DOT for random formulas with "
                "repeated sub-terms (DotTreeOK); CLI -d / -p for the formula matrix; non-trivial = exports with >= 2 test nodes")
    for mode, nv, depth in (("bdd", 4 if t else 3, 0), ("tree", 3, 2 if t else 1)):
        dm = fresh_dir(run.prop, "mc_dot_" + mode)
        res = run_tlc("MC_Dot", cfg({"NV": nv, "MaxDepth": depth, "Mode": mode},
                                    extra='CONSTANT NameSeq <- %s\nCONSTANT FixVars = {"X", "b"}' % ("NS_abX" if nv == 3 else "NS_abXc")), dm, timeout=7200)
        run.add_tlc("mc_dot_" + mode, res, require_actions=["Grow"] if mode == "tree" else None)
        run.spec_must_hold("mc_dot_" + mode, res)
    d = fresh_dir(run.prop, "dotcases")
    p = os.path.join(d, "cases.ndjson")
    summary, _ = run_harness(["dot-cases", p, "4" if t else "3", str(1500 if t else 200)])
    # a sample of the diagrams over four variables in the quick tier as well
    if not t:
        p4 = os.path.join(d, "cases4.ndjson")
        s4, _ = run_harness(["dot-cases", p4, "4", "0"])
        with open(p, "a") as fh:
            lines4 = open(p4).read().splitlines()
            rnd4 = random.Random(seed())
            for ln in rnd4.sample(lines4, min(len(lines4), 900)):
                fh.write(ln + "\n")
    run.extra.setdefault("i2s", {})["library"] = summary
    groups = {}
    nontrivial = 0
    for line in open(p):
        rec = json.loads(line)
        if rec["k"] == "outcome":
            run.violation("dot:panic", "render_dot failed: %s" % json.dumps(rec)[:300], {"mode": "dot-case", "record": rec})
            continue
        try:
            if rec["k"] == "dotbdd":
                canon = {n: "n%d" % (i + 1) for i, n in enumerate(rec["names"])}
                ev = {"k": "dotbdd", "dot": bdd_graph(rec["dot_text"], canon), "tt": rec["tt"], "filter": rec["filter"], "names": rec["names"]}
                if len([1 for _, l in ev["dot"]["nodes"] if l not in ("true", "false")]) >= 2:
                    nontrivial += 1
                groups.setdefault(len(rec["names"]), []).append(ev)
            else:
                ev = {"k": "dottree", "ptree": ptree_graph(rec["dot_text"]), "tree": rec["tree"], "text": rec["text"]}
                groups.setdefault(1, []).append(ev)
        except (ValueError, KeyError, IndexError) as ex:
            run.violation("dot:unreadable", "DOT text cannot be read back: %s" % ex, {"mode": "dot-case", "record": {k: rec[k] for k in rec if k != "dot_text"}})
    for g in groups.values():
        for ev in g:
            ev["key"] = hashlib.sha1(json.dumps(ev, sort_keys=True).encode()).hexdigest()[:20]
    validate_cli_groups(run, groups, "dotlib", {"C14"})
    run.sample({"direction": "impl->spec", "export": groups[max(groups)][7]})
    # through the binary
    camp = CliCampaign(run, "dotcli")
    rnd = camp.rnd
    for text in formulas_for(run, 150 if t else 30, 5):
        names = names_of_formula(text)
        ovs = order_variants(names, rnd)
        for flt in ("Any", "True", "False"):
            camp.add(text, rnd.choice(ovs), filt=flt, dot=True, table=True)
        camp.add(text, rnd.choice(ovs), ptree=True, table=False)
    camp.execute()
    g2 = camp.events()
    validate_cli_groups(run, g2, "dotcli", {"C14", "C12"})
    run.nontrivial = nontrivial
    run.assumptions += ["the DOT reader and the inverse of Rust's escape_default in lib/checks_cli.py are trusted"]


def replay_cli_run(prop, rp):
    run = Run(prop, "quick")
    camp = CliCampaign(run, "replay")
    it = rp["item"]
    argv = it["argv"]
    camp.add(it["text"], it["order"], filt=it["filter"], retain=it["retain"], model=it["model"], table="-t" in argv,
             vars_="-v" in argv, export="-r" in argv, dot="-d" in argv, ptree="-p" in argv, api=True)
    camp.execute()
    groups = camp.events()
    validate_cli_groups(run, groups, "replay", {"C07", "C08", "C10", "C11", "C12", "C14", "C20"})
    for key, desc, _ in run.violations:
        log("replay: %s" % desc[:400])
    return not run.violations


def replay_dot_case(prop, rp):
    run = Run(prop, "quick")
    c14(run)
    return not run.violations


def cli_model_retain(run, which):
    """CLI part of C07 (-m) / C20 (-c): validated by Trace_Cli's ModelTableOK / RetainTableOK."""
    t = run.tier == "thorough"
    camp = CliCampaign(run, which)
    rnd = camp.rnd
    for text in formulas_for(run, 200 if t else 40, 5):
        names = names_of_formula(text)
        ovs = order_variants(names, rnd)
        if which == "model":
            for flt in ("Any", "True"):
                camp.add(text, rnd.choice(ovs), model=True, filt=flt, channel=rnd.choice(["evaluate", "file", "stdin"]))
            camp.add(text, rnd.choice(ovs), model=True, filt="False")
            # -m together with -c: retain first, then extract the model of the retained diagram
            for rt in ("True", "False"):
                o = rnd.choice(ovs)
                base = camp.add(text, o, retain=rt, filt="Any")
                camp.add(text, o, retain=rt, model=True, filt=rnd.choice(["Any", "True"]), base=base)
        else:
            for rt in ("True", "False", "Any"):
                camp.add(text, rnd.choice(ovs), retain=rt, filt=rnd.choice(["Any", "True", "False"]))
    camp.execute()
    groups = camp.events()
    validate_cli_groups(run, groups, which, {"C07"} if which == "model" else {"C20"})
    run.extra.setdefault("cli_runs", 0)
    run.extra["cli_runs"] += sum(len(g) for g in groups.values())


CHECKS = {"C10": c10, "C11": c11, "C14": c14}
REPLAYS = {"cli-run": replay_cli_run, "dot-case": replay_dot_case}
