"""C10 (truth table), C11 (ordering), C14 (Graphviz), CLI parts of C07/C20: Cli.tla / Dot.tla against the rsbdd binary."""
import hashlib
import json
import os
import random
import re
import subprocess
from concurrent.futures import ThreadPoolExecutor

from vlib import *

FILTER_SPELLINGS = {
    "True": ["true", "True", "t", "T", "1"],
    "False": ["false", "False", "f", "F", "0"],
    "Any": ["any", "Any", "a", "A", "*"],
}

# ---------------------------------------------------------------------------
# small trusted parsers


KEYWORDS = {"true", "false", "not", "and", "or", "xor", "nor", "nand", "implies", "in", "iff", "eq", "exists", "any", "forall", "all",
            "if", "then", "else", "gfp", "nu", "lfp", "mu"}


def ordering_names(text):
    """the variable names of an ordering text (what -r prints is meant to be fed back with -o): quoted comments are skipped,
    every other maximal run of name characters that is not a keyword or a number is a name; repetitions are kept"""
    txt = re.sub(r'"[^"]*"', " ", text)
    return [w for w in re.findall(r"[\w']+", txt) if w not in KEYWORDS and not w[0].isdigit()]


def parse_stdout(out):
    """-> (export_names, header, rows, vlines); rows: [cells, result_bool].
    Lines are classified by their syntax, not by their position: table lines start with '|' (the first one is the header, a line
    of dashes separates it from the rows), -v lines end with ';', everything else belongs to the exported ordering."""
    export_lines, table, vlines = [], [], []
    lines = out.split("\n")
    if lines and lines[-1] == "":
        lines = lines[:-1]
    for ln in lines:
        if ln.startswith("|"):
            table.append(ln)
        elif ln.endswith(";"):
            items = [x for x in ln[:-1].split(", ") if x != ""]
            for x in items:
                if not re.fullmatch(r"[\w']+\*?", x):
                    raise ValueError("unexpected line %r" % ln)
            vlines.append([[x for x in items if not x.endswith("*")], [x[:-1] for x in items if x.endswith("*")]])
        else:
            if ln.strip() and not re.fullmatch(r"""(\s*("[^"]*"|[\w']+))*\s*""", ln):
                raise ValueError("unexpected line %r" % ln)
            export_lines.append(ln)
    header, rows = None, []
    if table:
        cells = [c.strip() for c in table[0].strip().strip("|").split("|")]
        header = cells[:-1]
        if cells[-1] != "*":
            raise ValueError("table header does not end with *")
        if len(table) < 2 or not re.fullmatch(r"(\|-+)+\|", table[1].strip()):
            raise ValueError("table separator missing")
        for ln in table[2:]:
            if not ln.rstrip().endswith("|"):
                raise ValueError("unexpected line %r" % ln)
            cells = [c.strip() for c in ln.strip().strip("|").split("|")]
            if cells[-1] not in ("True", "False"):
                raise ValueError("bad result cell %r" % cells[-1])
            if len(cells) != len(header) + 1:
                raise ValueError("row with %d cells under a header of %d: %r" % (len(cells), len(header) + 1, ln))
            rows.append([cells[:-1], cells[-1] == "True"])
    return ordering_names("\n".join(export_lines)), header, rows, vlines


def rust_unescape(s):
    """inverse of Rust's str::escape_default"""
    out = []
    i = 0
    while i < len(s):
        c = s[i]
        if c != "\\":
            out.append(c)
            i += 1
            continue
        n = s[i + 1]
        if n == "u":
            j = s.index("}", i)
            out.append(chr(int(s[i + 3:j], 16)))
            i = j + 1
        else:
            out.append({"n": "\n", "t": "\t", "r": "\r", "'": "'", '"': '"', "\\": "\\", "0": "\0"}[n])
            i += 2
    return "".join(out)


DOT_TOKEN = re.compile(r"""
    (?P<ws>\s+|//[^\n]*|/\*.*?\*/|^\#[^\n]*)
  | (?P<arrow>->|--)
  | (?P<punct>[\[\]{};,=:])
  | (?P<quoted>"(?:[^"\\]|\\.)*")
  | (?P<id>-?[\w\u0080-\uffff.']+)
""", re.X | re.S | re.M)


def dot_tokens(text):
    pos, out = 0, []
    while pos < len(text):
        m = DOT_TOKEN.match(text, pos)
        if not m:
            raise ValueError("unreadable DOT text at %r" % text[pos:pos + 30])
        pos = m.end()
        if m.lastgroup == "ws":
            continue
        if m.lastgroup == "quoted":
            out.append(("id", m.group()[1:-1], True))
        elif m.lastgroup == "id":
            out.append(("id", m.group(), False))
        elif m.lastgroup == "arrow":
            out.append(("arrow", m.group(), False))
        else:
            out.append((m.group(), m.group(), False))
    return out


def parse_dot(text, undirected=False):
    """A reader for the DOT language as far as a graph exporter can reasonably use it: `digraph name { stmt* }` with node
    statements, edge statements (chains), attribute lists, `graph/node/edge [..]` defaults and `a = b` graph attributes,
    separated by `;` or nothing; comments.  Returns every node STATEMENT (so a node declared twice shows up twice) and every
    edge; the label of a node without a label attribute is its name (DOT's default)."""
    toks = dot_tokens(text)
    i = 0

    def peek(k=0):
        return toks[i + k][0] if i + k < len(toks) else None

    def take(kind):
        nonlocal i
        if peek() != kind:
            raise ValueError("DOT: expected %r at token %d (%r)" % (kind, i, toks[i:i + 3]))
        i += 1
        return toks[i - 1]

    if peek() == "id" and toks[i][1] == "strict":
        i += 1
    if not (peek() == "id" and toks[i][1] == ("graph" if undirected else "digraph")):
        raise ValueError("not a %s" % ("graph" if undirected else "digraph"))
    i += 1
    if peek() == "id":
        i += 1
    take("{")
    nodes, edges = [], []
    defaults = {"node": {}, "edge": {}}

    def attr_lists():
        nonlocal i
        attrs = {}
        while peek() == "[":
            i += 1
            while peek() != "]":
                k = take("id")[1]
                take("=")
                v = take("id")
                attrs[k] = rust_unescape(v[1]) if v[2] else v[1]
                if peek() in (",", ";"):
                    i += 1
            take("]")
        return attrs

    while peek() != "}":
        if peek() == ";":
            i += 1
            continue
        if peek() == "{" or (peek() == "id" and toks[i][1] == "subgraph" and not toks[i][2]):
            raise ValueError("DOT: subgraphs are not supported by this reader")
        first = take("id")
        if not first[2] and first[1] in ("graph", "node", "edge") and peek() == "[":
            a = attr_lists()
            if first[1] != "graph":
                defaults[first[1]].update(a)
            continue
        if peek() == "=":
            i += 1
            take("id")
            continue
        chain = [first[1]]
        while peek() == "arrow":
            if toks[i][1] != ("--" if undirected else "->"):
                raise ValueError("DOT: wrong edge operator %s" % toks[i][1])
            i += 1
            chain.append(take("id")[1])
            if peek() == ":":          # ports
                i += 1
                take("id")
        a = attr_lists()
        if len(chain) == 1:
            aa = dict(defaults["node"])
            aa.update(a)
            nodes.append([chain[0], aa.get("label", chain[0])])
        else:
            aa = dict(defaults["edge"])
            aa.update(a)
            for x, y in zip(chain, chain[1:]):
                edges.append([x, y, aa.get("label", "")])
    take("}")
    if i != len(toks):
        raise ValueError("DOT: text after the closing brace")
    return {"nodes": nodes, "edges": edges}


BINOPS = {"And": "and", "Or": "or", "Xor": "xor", "Nor": "nor", "Nand": "nand", "Implies": "implies", "ImpliesInv": "impliesinv", "Iff": "iff"}
CMPS = {"AtMost": "atmost", "LessThan": "lessthan", "AtLeast": "atleast", "MoreThan": "morethan", "Exactly": "exactly"}


def tree_label(l):
    if l.startswith("Var "):
        return ["var", l[4:]]
    if l.startswith("Ref "):
        return ["ref", l[4:]]
    if l in ("True", "False"):
        return ["const", l == "True"]
    if l == "Not":
        return ["not"]
    if l == "Ite":
        return ["ite"]
    if l in BINOPS:
        return ["bin", BINOPS[l]]
    m = re.fullmatch(r"(Exists|Forall) \[(.*)\]", l)
    if m:
        return ["q", m.group(1).lower(), [x for x in m.group(2).split(", ") if x != ""]]
    m = re.fullmatch(r"(GFP|LFP) (.*)", l)
    if m:
        return ["fix", m.group(2), m.group(1) == "GFP"]
    m = re.fullmatch(r"(\w+) (\d+)", l)
    if m and m.group(1) in CMPS:
        return ["cc", CMPS[m.group(1)], min(int(m.group(2)), 1000000)]
    if l in CMPS:
        return ["cv", CMPS[l]]
    return ["unknown", l]


def tree_edge_label(l):
    if l in ("L", "R", "If", "Then", "Else", ""):
        return [l]
    m = re.fullmatch(r"(L|R)?\{(\d+)\}", l)
    if m:
        return [(m.group(1) or "") + "i", int(m.group(2))]
    return ["unknown", l]


def ptree_graph(text):
    g = parse_dot(text)
    return {"nodes": [[i, tree_label(l)] for i, l in g["nodes"]], "edges": [[a, b, tree_edge_label(l)] for a, b, l in g["edges"]]}


def bdd_graph(text, canon):
    g = parse_dot(text)
    return {"nodes": [[i, l if l in ("true", "false") else canon.get(l, "?" + l)] for i, l in g["nodes"]], "edges": g["edges"]}


# ---------------------------------------------------------------------------
# running the binary

def run_rsbdd(args, stdin=None, timeout=60):
    try:
        p = subprocess.run([repo_bin("rsbdd")] + args, input=stdin, stdout=subprocess.PIPE, stderr=subprocess.DEVNULL, timeout=timeout)
        return p.returncode, p.stdout
    except subprocess.TimeoutExpired:
        return -999, b""


def chars(s):
    return list(s)


STRATIFIED = [
    "true", "false", "a", "-a", "a & b", "a | b | c", "(a => b) & (b => c)", "a ^ b ^ c ^ d", "exists a # a & b",
    "forall b # a | b", "c | exists a, b # a & b & c", "[a, b, c] = 1", "[a, b, c, d] >= 2", "[a, b] < [c, d]",
    "if a then b else c", "lfp X # a | (X & b)", "gfp X # X", "b & (mu X # a | exists a # X)", "(exists z # z) & a & z",
    "a <=> (b nand c)", "[a, a, b] > 1", "nu Y # (a | b) & Y", "-(x1 & x2) | {undefined}", "forall # a", "[] = 0",
    "q1 & -q1", "a | -a", "exists a # forall b # a ^ b ^ c",
]


BIG_TABLES = [
    "a ^ b ^ c ^ d ^ e ^ f ^ g ^ h",
    "[a, b, c, d, e, f, g, h] >= 4",
    "(p1 <=> p2) ^ (p3 <=> p4) ^ (p5 <=> p6) ^ p7",
    "[x1 & x2, x3, x4 | x5, x6, x7, -x8] = 3",
]


def order_variants(names, rnd):
    """ordering file texts: permutation / reversal / subset / superset (unused names before, between, after) /
    duplicates / stray punctuation"""
    out = [None]
    if not names:
        return out + ["zz yy"]
    perm = names[:]
    rnd.shuffle(perm)
    out.append(" ".join(names))
    out.append("\n".join(reversed(names)))
    out.append(", ".join(perm))
    out.append(" ".join(perm[: max(1, len(perm) // 2)]))
    sup = ["u0"] + perm[:1] + ["u1"] + perm[1:] + ["u2"]
    out.append(" ; ".join(sup))
    out.append(" ".join(perm + perm[:1] + ["u9"] + perm[-1:]))
    # unused names together with a strict subset of the formula's names (the other names are not listed)
    if len(perm) >= 2:
        out.append(" ".join(["u5"] + perm[: max(1, len(perm) // 2)] + ["u6"]))
        out.append(perm[-1] + " u7")
    out.append("  $ ".join(reversed(names)) + " .. & and ( 12 \"comment\" ")
    return out


class CliCampaign:
    def __init__(self, run, label):
        self.run = run
        self.label = label
        self.d = fresh_dir(run.prop, "cli_" + label)
        self.items = []     # (text, order_text, opts dict, channel, bench, key)
        self.rnd = random.Random(seed() * 7919 + 13)
        self.n = 0

    def add(self, text, order, filt="Any", retain="Any", model=False, table=True, vars_=False, export=False, dot=False,
            ptree=False, channel="evaluate", bench=None, key_extra="", order_for_key=None, api=False, base=None):
        fsp = self.rnd.choice(FILTER_SPELLINGS[filt])
        rsp = self.rnd.choice(FILTER_SPELLINGS[retain])
        okey = order if order_for_key is None else order_for_key
        key = hashlib.sha1(json.dumps([text, okey, filt, retain, model, table, vars_, export, key_extra]).encode()).hexdigest()[:20]
        self.items.append(dict(text=text, order=order, filter=filt, fsp=fsp, retain=retain, rsp=rsp, model=model, table=table,
                               vars=vars_, export=export, dot=dot, ptree=ptree, channel=channel, bench=bench, key=key, api=api, base=base))
        return len(self.items) - 1

    def execute(self):
        """run the binary for every item (16 parallel), then describe all inputs with the harness"""
        build_repo_bins()     # always from /repo's current working tree
        def one(ix):
            it = self.items[ix]
            base = os.path.join(self.d, "r%d" % ix)
            args = []
            stdin = None
            if it["channel"] == "evaluate":
                args.append("--evaluate=" + it["text"])
            elif it["channel"] == "file":
                fp = base + ".txt"
                with open(fp, "w") as fh:
                    fh.write(it["text"])
                args.append(fp)
            else:
                stdin = it["text"].encode()
            if it["order"] is not None:
                op = base + ".ord"
                with open(op, "w") as fh:
                    fh.write(it["order"])
                args += ["-o", op]
            if it["table"]:
                args.append("-t")
            if it["vars"]:
                args.append("-v")
            if it["model"]:
                args.append("-m")
            if it["export"]:
                args.append("-r")
            if it["filter"] != "Any" or self.rnd.random() < 0.3:
                args += ["-f", it["fsp"]]
            if it["retain"] != "Any":
                args += ["-c", it["rsp"]]
            if it["bench"] is not None:
                args += ["-b", str(it["bench"])]
            if it["dot"]:
                args += ["-d", base + ".dot"]
            if it["ptree"]:
                args += ["-p", base + ".ptree"]
            # the order of the options on the command line is free: shuffle the option groups (deterministically per item)
            groups, k = [], 0
            while k < len(args):
                if args[k] in ("-o", "-f", "-c", "-b", "-d", "-p") and k + 1 < len(args):
                    groups.append(args[k:k + 2])
                    k += 2
                else:
                    groups.append(args[k:k + 1])
                    k += 1
            random.Random(int(it["key"][:8], 16) + ix).shuffle(groups)
            args = [a_ for g in groups for a_ in g]
            rc, out = run_rsbdd(args, stdin)
            it["exit"] = rc
            it["stdout"] = out
            it["argv"] = args
            # the variable order the tool actually uses is an observable (-r), not a prediction: a run without -r is
            # probed once more with -r added (and without the file exports)
            it["probe"] = None
            if rc == 0 and not it["export"]:
                pargs = []
                skip = False
                for a_ in args:
                    if skip:
                        skip = False
                        continue
                    if a_ in ("-d", "-p"):
                        skip = True
                        continue
                    pargs.append(a_)
                prc, pout = run_rsbdd(pargs + ["-r"], stdin)
                it["probe"] = (prc, pout)
            for k, ext in (("dot_text", ".dot"), ("ptree_text", ".ptree")):
                p = base + ext
                it[k] = open(p).read() if os.path.exists(p) else None
            return ix

        with ThreadPoolExecutor(max_workers=NCPU) as ex:
            list(ex.map(one, range(len(self.items))))
        din = os.path.join(self.d, "describe_in.json")
        dout = os.path.join(self.d, "describe_out.ndjson")
        prog = os.path.join(self.d, "describe_progress.txt")
        no_api = set()
        for attempt in range(12):
            with open(din, "w") as fh:
                # after two hanging items the API route is dropped for the rest of this batch (the hangs are already
                # reported; a change that makes MANY orderings diverge must end as a violation, not as a tool timeout)
                all_off = len(no_api) >= 2
                json.dump([{"text": it["text"], "order": it["order"], "no_api": all_off or (i in no_api) or not it["api"]}
                           for i, it in enumerate(self.items)], fh)
            try:
                run_harness(["describe", din, dout, prog], timeout=240 if not no_api else 120)
                break
            except subprocess.TimeoutExpired:
                # the API route (NamedSymbol ordering) of one item does not terminate: data, not a tool failure
                i = int(open(prog).read().strip())
                it = self.items[i]
                if i in no_api or all_off:
                    raise ToolError("describe hangs on item %d even without the API route: %r" % (i, it["text"]))
                no_api.add(i)
                self.run.violation("cli:%s:API route does not terminate" % self.label,
                                   "ParsedFormula::new with a NamedSymbol ordering / eval does not terminate for %r, ordering %r" % (it["text"], it["order"]),
                                   {"mode": "cli-run", "item": {"text": it["text"], "order": it["order"], "argv": ["-t"], "filter": "Any", "retain": "Any", "model": False}})
        else:
            raise ToolError("describe: too many hanging items")
        descs = [json.loads(l) for l in open(dout)]
        for it, dsc in zip(self.items, descs):
            it["desc"] = dsc

    def events(self):
        """-> dict k (number of names) -> list of event dicts; violations that need no TLC are reported directly"""
        groups = {}
        for it in self.items:
            dsc = it["desc"]
            # exit status: 0 = Ok, any other ordinary status = error exit (normalised to 1); 101 (Rust panic),
            # statuses >= 128 / negative (signals) and timeouts are abnormal
            ex = it["exit"]
            ev = {"k": "run", "key": it["key"], "exit": 0 if ex == 0 else (1 if (0 < ex < 128 and ex != 101) else 99),
                  "has_order": it["order"] is not None, "order_chars": chars(it["order"] or ""), "formula_chars": chars(it["text"]),
                  "filter": it["filter"], "retain": it["retain"], "model": it["model"], "argv": it["argv"], "text": it["text"], "order": it["order"] if it["order"] is not None else ""}
            try:
                so = it["stdout"].decode("utf-8")
            except UnicodeDecodeError:
                so = None
            ev["stdout_empty"] = (it["stdout"] == b"")
            ev["digest"] = hashlib.sha1(it["stdout"]).hexdigest()[:16]
            lib_names = dsc.get("names", [])
            # canonical names n1.. follow the order the binary itself exports; names it does not export (reported by
            # Trace_Cli) are appended in the library's order so that the renaming stays total
            exported = None
            try:
                if it["exit"] == 0 and it["export"] and so is not None:
                    exported = parse_stdout(so)[0]
                elif it["exit"] == 0 and it.get("probe") and it["probe"][0] == 0:
                    exported = parse_stdout(it["probe"][1].decode("utf-8"))[0]
            except (ValueError, UnicodeDecodeError):
                exported = None
            names = []
            for x in (exported or []):
                if x in lib_names and x not in names:
                    names.append(x)
            names += [x for x in lib_names if x not in names]
            canon = {n: "n%d" % (i + 1) for i, n in enumerate(names)}
            libcanon = {"n%d" % (i + 1): canon[n] for i, n in enumerate(lib_names)}
            ev["names"] = names
            ev["lib_names"] = lib_names
            ev["ast"] = rename_tree(dsc.get("ast", []), libcanon)
            ev["has_probe"] = exported is not None
            ev["order_export"] = [canon[x] for x in (exported or []) if x in canon]
            ev["export_extras"] = [x for x in (exported or []) if x not in canon]
            ev.update(has_base=False, base_rows=[])
            ev.update(has_table=False, has_vars=False, has_export=False, has_dot=False, has_ptree=False, has_api=False,
                      header=[], rows=[], vlines=[], dot={"nodes": [], "edges": []}, ptree={"nodes": [], "edges": []},
                      api_tt=[], api_ok=True)
            bad = None
            if it["exit"] == 0 and so is not None:
                try:
                    export, header, rows, vlines = parse_stdout(so)
                    if it["export"]:
                        ev["has_export"] = True
                    elif export:
                        raise ValueError("unexpected leading lines %r" % export[:2])
                    if exported is None:
                        raise ValueError("the variable order could not be observed (-r probe: %r)" % (it.get("probe") or ("", b""))[1][:200])
                    if it["table"]:
                        if header is None:
                            raise ValueError("no table printed")
                        if any(h not in canon for h in header):
                            raise ValueError("header names a variable that is not in the formula: %r" % header)
                        ev["has_table"] = True
                        ev["header"] = [canon[h] for h in header]
                        ev["rows"] = rows
                    if it["vars"]:
                        ev["has_vars"] = True
                        ev["vlines"] = [[[canon.get(x, "?" + x) for x in a], [canon.get(x, "?" + x) for x in b]] for a, b in vlines]
                    if it["dot"]:
                        ev["has_dot"] = True
                        ev["dot"] = bdd_graph(it["dot_text"], canon)
                    if it["ptree"]:
                        ev["has_ptree"] = True
                        g = ptree_graph(it["ptree_text"])
                        # names in the tree are canonicalised like the tree itself
                        def cn(lab):
                            if lab[0] == "var":
                                return ["var", canon.get(lab[1], lab[1])]
                            if lab[0] == "q":
                                return ["q", lab[1], [canon.get(x, x) for x in lab[2]]]
                            if lab[0] == "fix":
                                return ["fix", canon.get(lab[1], lab[1]), lab[2]]
                            return lab
                        ev["ptree"] = {"nodes": [[i, cn(l)] for i, l in g["nodes"]], "edges": g["edges"]}
                except (ValueError, KeyError, IndexError, TypeError) as ex:
                    bad = "unreadable output: %s" % ex
            if it["api"] and dsc.get("parse_ok"):
                api = dsc.get("api", {})
                if api.get("skipped"):
                    pass
                elif "panic" in api:
                    bad = bad or ("API route panicked: %s" % api["panic"])
                else:
                    ev["has_api"] = True
                    ev["api_tt"] = permute_table(api["tt"], lib_names, names)
                    ev["api_ok"] = api["ok"]
            if it.get("base") is not None and it["exit"] == 0:
                b = self.items[it["base"]]
                try:
                    bexp, bheader, brows, bvl = parse_stdout(b["stdout"].decode("utf-8"))
                    if b["exit"] == 0 and bheader is not None and [canon[h] for h in bheader] == ev["header"]:
                        ev["has_base"] = True
                        ev["base_rows"] = brows
                except (ValueError, KeyError, UnicodeDecodeError):
                    pass
            if bad:
                self.run.violation("cli:%s:unreadable" % self.label, "%s (argv %s)" % (bad, it["argv"]),
                                   {"mode": "cli-run", "item": {k: it[k] for k in ("text", "order", "argv", "filter", "retain", "model")}})
                continue
            k = max(1, len(names))
            groups.setdefault(k, []).append(ev)
        return groups


def rename_tree(t, f):
    """rename the variable names of a syntax tree in the harness's JSON form"""
    if not isinstance(t, list) or not t:
        return t
    k = t[0]
    if k == "var":
        return ["var", f.get(t[1], t[1])]
    if k == "q":
        return ["q", t[1], [f.get(x, x) for x in t[2]], rename_tree(t[3], f)]
    if k == "fix":
        return ["fix", f.get(t[1], t[1]), t[2], rename_tree(t[3], f)]
    if k in ("cc", "cv"):
        return [k, t[1]] + [[rename_tree(x, f) for x in part] if isinstance(part, list) else part for part in t[2:]]
    return [k] + [rename_tree(x, f) if isinstance(x, list) else x for x in t[1:]]


def permute_table(tt, old, new):
    """truth table over the columns `old` (first column most significant) re-indexed for the column order `new`"""
    n = len(old)
    if n == 0 or old == new:
        return tt
    pos = [old.index(x) for x in new]
    out = []
    for j in range(1 << n):
        bits = [(j >> (n - 1 - i)) & 1 for i in range(n)]      # values of new[i]
        oj = 0
        for i, b in enumerate(bits):
            oj |= b << (n - 1 - pos[i])
        out.append(tt[oj])
    return out


def validate_cli_groups(run, groups, label, owners):
    """events with the same key must meet in one TLC process: shard by key"""
    d = fresh_dir(run.prop, "tv_" + label)
    jobs = []
    for k, evs in sorted(groups.items()):
        if k > 8:
            continue
        nshards = max(1, min(8, len(evs) // 60))
        shards = [[] for _ in range(nshards)]
        for ev in evs:
            shards[int(ev["key"][:6], 16) % nshards].append(ev) if ev.get("k") == "run" else shards[hash(json.dumps(ev, sort_keys=True)) % nshards].append(ev)
        for si, sh in enumerate(shards):
            if not sh:
                continue
            path = os.path.join(d, "k%d_s%d.ndjson" % (k, si))
            with open(path, "w") as fh:
                for ev in sh:
                    fh.write(json.dumps(ev) + "\n")
            jobs.append((k, si, path, sh))

    def one(job):
        k, si, path, sh = job
        return job, validate_trace("Trace_Cli", path, {"NV": k}, os.path.join(run.prop, "tv_%s_k%d_s%d" % (label, k, si)),
                                   shards=1, extra_cfg="CONSTANT NameSeq <- NS%d" % k)

    with ThreadPoolExecutor(max_workers=6) as ex:
        results = list(ex.map(one, jobs))
    total = 0
    for (k, si, path, sh), (acc, rej, tlcs, lines) in results:
        for r in tlcs:
            run.add_tlc("trace_%s_k%d_%d" % (label, k, si), r, require_actions=["Step"])
        run.impl_traces += acc
        total += len(lines)
        for i in rej:
            ev = sh[i]
            why = rej.reasons.get(i, "")
            if why.startswith("specification:") or why.startswith("harness:"):
                raise ToolError("Trace_Cli: %s on %r" % (why, ev.get("text")))
            owner = owner_of(why)
            if owner in owners:
                desc = "Trace_Cli rejects %s: %s" % (ev.get("k"), why)
                if ev.get("k") == "run":
                    desc += " -- rsbdd %s (order file %r)" % (" ".join(ev["argv"]), ev["order"])
                    rp = {"mode": "cli-run", "item": {"text": ev["text"], "order": ev["order"] if ev["has_order"] else None, "argv": ev["argv"],
                                                      "filter": ev["filter"], "retain": ev["retain"], "model": ev["model"]}}
                else:
                    rp = {"mode": "dot-case", "record": {k2: ev[k2] for k2 in ev if k2 in ("k", "text", "filter", "tt", "names")}}
                run.violation("cli:%s:%s" % (label, why), desc[:700], rp)
    run.evaluations += total
    return total


def owner_of(why):
    if why.startswith("-m"):
        return "C07"
    if why.startswith("-c"):
        return "C20"
    if why.startswith("-d") or why.startswith("-p") or "exported graph" in why:
        return "C14"
    if why.startswith("variable ids") or why.startswith("-r") or why.startswith("API") or "re-imported" in why:
        return "C11"
    if "abnormal exit" in why or "panic" in why:
        return "C12"
    if "parse tree" in why or "not a formula" in why or "valid input" in why:
        return "C08"
    return "C10"


def formulas_for(run, n_random, max_names):
    d = fresh_dir(run.prop, "formulas")
    p = os.path.join(d, "f.json")
    run_harness(["gen-formulas", p, str(n_random), str(max_names)])
    return STRATIFIED + json.load(open(p))


def names_of_formula(text):
    """cheap name extraction for building ordering files (the real id order is re-derived by TLC)"""
    kw = {"true", "false", "not", "and", "or", "xor", "nor", "nand", "implies", "in", "iff", "eq", "exists", "any", "forall", "all",
          "if", "then", "else", "gfp", "nu", "lfp", "mu"}
    txt = re.sub(r'"[^"]*"', " ", text)
    txt = re.sub(r"\{[\w']+\}", " ", txt)
    out = []
    for w in re.findall(r"[\w']+", txt):
        if w in kw or w[0].isdigit():
            continue
        if w not in out:
            out.append(w)
    return out


def c10(run):
    t = run.tier == "thorough"
    run.rule = ("MC_Cli: pipeline machine x {filter} x {-c} x {-m} for every spine formula of depth <= 1 (51 k configurations): the model's table "
                "satisfies TableOK/VarsOK/ModelTableOK/RetainTableOK; real binary: stratified + random formulas x 15 filter spellings x 3 input "
                "channels x orderings (absent/permutation/subset/superset/duplicates) x {-t,-v,-m,-b 1,-b 3}; every run validated by Trace_Cli "
                "(spec re-tokenizes and re-parses the texts), channel/repeat independence by stdout digest per configuration key; "
                "non-trivial = runs that printed a table with >= 2 rows")
    mc_cli(run)
    camp = CliCampaign(run, "table")
    rnd = camp.rnd
    for text in formulas_for(run, 260 if t else 45, 6):
        names = names_of_formula(text)
        ovs = order_variants(names, rnd)
        o1 = rnd.choice(ovs)
        # same configuration through the three channels and with repetitions
        for ch, b in (("evaluate", None), ("file", None), ("stdin", None), ("evaluate", 1), ("file", 3)):
            camp.add(text, o1, channel=ch, bench=b)
        for flt in ("True", "False"):
            camp.add(text, rnd.choice(ovs), filt=flt, channel=rnd.choice(["evaluate", "file", "stdin"]))
            camp.add(text, o1, filt=flt, channel="stdin", bench=2)
            camp.add(text, o1, filt=flt, channel="file")
        camp.add(text, rnd.choice(ovs), vars_=True, table=False)
        camp.add(text, rnd.choice(ovs), vars_=True, table=True, filt="True")
        # -v lists the satisfying rows whatever the row filter of the table is
        camp.add(text, rnd.choice(ovs), vars_=True, table=rnd.random() < 0.5, filt="False")
        camp.add(text, rnd.choice(ovs), model=True, filt=rnd.choice(["Any", "True"]))
        if t:
            for o in ovs:
                camp.add(text, o, filt=rnd.choice(["Any", "True", "False"]))
    # tables of a few hundred rows (more than one output buffer), -t and -v together
    for text in BIG_TABLES:
        names = names_of_formula(text)
        camp.add(text, None, vars_=True, table=True)
        camp.add(text, " ".join(reversed(names)), vars_=True, table=True, filt="True", channel="file")
        camp.add(text, None, table=True, filt="False", channel="stdin", bench=2)
    camp.execute()
    groups = camp.events()
    n = validate_cli_groups(run, groups, "table", {"C10", "C08", "C12"})
    run.nontrivial = sum(1 for g in groups.values() for ev in g if len(ev["rows"]) >= 2)
    run.sample({"direction": "impl->spec", "run": {k: v for k, v in groups[min(groups)][0].items() if k in ("argv", "order", "header", "rows", "exit")}})
    big = max(groups)
    run.sample({"direction": "impl->spec", "run": {k: v for k, v in groups[big][len(groups[big]) // 2].items() if k in ("argv", "order", "header", "rows", "exit")}})
    run.extra["cli_runs"] = sum(len(g) for g in groups.values())
    run.assumptions += ["the Markdown table / -v line reader in lib/checks_cli.py is trusted",
                        "the harness's canonical renaming (names by id -> n1..nk) is re-derived and checked by Trace_Cli"]


def mc_cli(run, depth=1):
    d = fresh_dir(run.prop, "mc_cli")
    c = cfg({"NV": 3, "MaxDepth": depth}, invariants=("OutputOK", "NoError"),
            extra='CONSTANT NameSeq <- NS_abX\nCONSTANT FixVars = {"X", "b"}')
    res = run_tlc("MC_Cli", c, d, timeout=3000)
    run.add_tlc("mc_cli", res, require_actions=["Grow", "Configure", "DoParse", "DoEval", "DoRetain", "DoModel", "DoPrint"])
    run.spec_must_hold("mc_cli", res)


def c11(run):
    t = run.tier == "thorough"
    run.rule = ("orderings for %s formulas: every variant (absent, identity, reversal, permutation, subset, superset with unused names "
                "before/between/after, duplicates, stray punctuation/keywords/numbers/comments) as file (CLI -o) and as NamedSymbol vector "
                "(API, ids 5,9,13..): Trace_Cli re-derives the id order from the ordering text (Cli!IdOrder) and requires names in id order, "
                "header order, same function (TableOK against Sem), -r export = id order, re-import of the export gives the identical "
                "table (digest); non-trivial = runs with an ordering file that changes the default order") % ("~300" if t else "~70")
    mc_cli(run)
    camp = CliCampaign(run, "order")
    rnd = camp.rnd
    changed = 0
    for text in formulas_for(run, 270 if t else 45, 6):
        names = names_of_formula(text)
        for o in order_variants(names, rnd):
            camp.add(text, o, api=True, channel=rnd.choice(["evaluate", "file", "stdin"]))
            if o is not None and names and o.split()[0] != names[0]:
                changed += 1
            camp.add(text, o, table=False, export=True)
    camp.execute()
    # re-import: feed the -r output back through -o; must reproduce the identical table (same key)
    second = CliCampaign(run, "reimport")
    for a, b in zip(camp.items[0::2], camp.items[1::2]):
        if b["exit"] == 0 and a["exit"] == 0:
            exported = b["stdout"].decode("utf-8", "replace")
            second.items.append(dict(a, order=exported, channel="evaluate", api=False))
    second.execute()
    groups = camp.events()
    for k, evs in second.events().items():
        groups.setdefault(k, []).extend(evs)
    validate_cli_groups(run, groups, "order", {"C11", "C10", "C12"})
    run.nontrivial = changed
    run.extra["cli_runs"] = sum(len(g) for g in groups.values())
    g0 = groups[max(groups)]
    run.sample({"direction": "impl->spec", "run": {k: v for k, v in g0[len(g0) // 3].items() if k in ("argv", "order", "names", "header", "order_export")}})


def c14(run):
    t = run.tier == "thorough"
    run.rule = ("library: BDDGraph DOT for every diagram over 3 (thorough: 4, sampled) variables whose names need escaping x 3 filters, read "
                "back and compared node for node with Canon of its truth table (DotBddOK); SymbolicParseTree DOT for random formulas with "
                "repeated sub-terms (DotTreeOK); CLI -d / -p for the formula matrix; non-trivial = exports with >= 2 test nodes")
    for mode, nv, depth in (("bdd", 4 if t else 3, 0), ("tree", 3, 2 if t else 1)):
        dm = fresh_dir(run.prop, "mc_dot_" + mode)
        res = run_tlc("MC_Dot", cfg({"NV": nv, "MaxDepth": depth, "Mode": mode},
                                    extra='CONSTANT NameSeq <- %s\nCONSTANT FixVars = {"X", "b"}' % ("NS_abX" if nv == 3 else "NS_abXc")), dm, timeout=7200)
        run.add_tlc("mc_dot_" + mode, res, require_actions=["Grow"] if mode == "tree" else None)
        run.spec_must_hold("mc_dot_" + mode, res)
    d = fresh_dir(run.prop, "dotcases")
    p = os.path.join(d, "cases.ndjson")
    summary, _ = run_harness(["dot-cases", p, "4" if t else "3", str(1500 if t else 200)])
    # a sample of the diagrams over four variables in the quick tier as well
    if not t:
        p4 = os.path.join(d, "cases4.ndjson")
        s4, _ = run_harness(["dot-cases", p4, "4", "0"])
        with open(p, "a") as fh:
            lines4 = open(p4).read().splitlines()
            rnd4 = random.Random(seed())
            for ln in rnd4.sample(lines4, min(len(lines4), 900)):
                fh.write(ln + "\n")
    run.extra.setdefault("i2s", {})["library"] = summary
    groups = {}
    nontrivial = 0
    for line in open(p):
        rec = json.loads(line)
        if rec["k"] == "outcome":
            run.violation("dot:panic", "render_dot failed: %s" % json.dumps(rec)[:300], {"mode": "dot-case", "record": rec})
            continue
        try:
            if rec["k"] == "dotbdd":
                canon = {n: "n%d" % (i + 1) for i, n in enumerate(rec["names"])}
                ev = {"k": "dotbdd", "dot": bdd_graph(rec["dot_text"], canon), "tt": rec["tt"], "filter": rec["filter"], "names": rec["names"]}
                if len([1 for _, l in ev["dot"]["nodes"] if l not in ("true", "false")]) >= 2:
                    nontrivial += 1
                groups.setdefault(len(rec["names"]), []).append(ev)
            else:
                ev = {"k": "dottree", "ptree": ptree_graph(rec["dot_text"]), "tree": rec["tree"], "text": rec["text"]}
                groups.setdefault(1, []).append(ev)
        except (ValueError, KeyError, IndexError) as ex:
            run.violation("dot:unreadable", "DOT text cannot be read back: %s" % ex, {"mode": "dot-case", "record": {k: rec[k] for k in rec if k != "dot_text"}})
    for g in groups.values():
        for ev in g:
            ev["key"] = hashlib.sha1(json.dumps(ev, sort_keys=True).encode()).hexdigest()[:20]
    validate_cli_groups(run, groups, "dotlib", {"C14"})
    run.sample({"direction": "impl->spec", "export": groups[max(groups)][7]})
    # ~107 000 shared test nodes each: enough pairs of nodes for a birthday collision of any 32-bit node identity
    big_dot_cases(run, 20, 16 if t else 6)
    # through the binary
    camp = CliCampaign(run, "dotcli")
    rnd = camp.rnd
    for text in formulas_for(run, 150 if t else 30, 5):
        names = names_of_formula(text)
        ovs = order_variants(names, rnd)
        for flt in ("Any", "True", "False"):
            camp.add(text, rnd.choice(ovs), filt=flt, dot=True, table=True)
        camp.add(text, rnd.choice(ovs), ptree=True, table=False)
    camp.execute()
    g2 = camp.events()
    validate_cli_groups(run, g2, "dotcli", {"C14", "C12"})
    run.nontrivial = nontrivial
    run.assumptions += ["the DOT reader and the inverse of Rust's escape_default in lib/checks_cli.py are trusted"]


def check_big_dot(dot_text, st):
    """DotBddOK (spec/Dot.tla) for diagrams far beyond TLC's reach: every node declared once, only declared nodes referenced,
    one T and one F edge per test node (edges into the leaf omitted by the filter may be missing), one root, and the graph read
    back as a decision graph is equivalent to the diagram (simultaneous walk of both ordered graphs).  Returns a reason or None."""
    g = parse_dot(dot_text)
    pos = {n: i for i, n in enumerate(st["order"])}
    label = {}
    for i, l in g["nodes"]:
        if i in label:
            return "node %s is declared more than once" % i
        label[i] = l
    omitted = {"Any": None, "True": "false", "False": "true"}[st["filter"]]
    succ = {}
    indeg = {i: 0 for i in label}
    for a, b, l in g["edges"]:
        if a not in label or b not in label:
            return "edge %s -> %s references an undeclared node" % (a, b)
        if l not in ("T", "F"):
            return "edge label %r" % l
        if (a, l) in succ:
            return "node %s has two %s edges" % (a, l)
        succ[(a, l)] = b
        indeg[b] += 1
    for i, l in label.items():
        if l in ("true", "false"):
            if l == omitted:
                return "the leaf %s should have been omitted" % l
            continue
        if l not in pos:
            return "label %r is not a variable of the diagram" % l
        for e in ("T", "F"):
            if (i, e) not in succ and omitted is None:
                return "node %s has no %s edge" % (i, e)
    tests = [i for i, l in label.items() if l not in ("true", "false")]
    roots = [i for i in tests if indeg[i] == 0]
    if st["root"] < 0:
        return None if not tests else "test nodes exported for a constant diagram"
    if len(roots) != 1:
        return "%d root nodes" % len(roots)
    LEAF = {-1: "false", -2: "true"}
    seen = set()
    stack = [(roots[0], st["root"])]
    while stack:
        d, b = stack.pop()
        if (d, b) in seen:
            continue
        seen.add((d, b))
        if len(seen) > 40 * (len(label) + len(st["var"])) + 1000:
            return "exported graph and diagram do not unfold alike (pair walk exploded)"
        dl = omitted if d is None else label[d]
        d_leaf = dl in ("true", "false")
        if b < 0 and d_leaf:
            if LEAF[b] != dl:
                return "a path ends in %s in the export and in %s in the diagram" % (dl, LEAF[b])
            continue
        pd = len(pos) if d_leaf else pos[dl]
        pb = len(pos) if b < 0 else pos[st["var"][b]]
        v = min(pd, pb)
        for e, arr in (("T", st["hi"]), ("F", st["lo"])):
            nd = succ.get((d, e)) if pd == v else d
            nb = arr[b] if pb == v else b
            stack.append((nd, nb))
    return None


def big_dot_cases(run, nv, procs, only=None):
    """node identity at scale: random diagrams with tens of thousands of shared nodes"""
    d = fresh_dir(run.prop, "dotbig")
    build_harness()
    e = dict(os.environ)
    e["VERIF_SEED"] = str(seed())
    salts = [k for k in range(procs) if only is None or k == only]
    ps = [subprocess.Popen([HARNESS_BIN, "dot-big", d, str(nv), "1", str(k)], stdout=subprocess.PIPE, stderr=subprocess.DEVNULL, env=e) for k in salts]
    sizes = []
    for k, p in zip(salts, ps):
        out, _ = p.communicate(timeout=3600)
        if p.returncode != 0:
            run.violation("dot:panic:big", "render_dot failed (exit %d) on a random diagram over %d variables (salt %d)" % (p.returncode, nv, k),
                          {"mode": "dot-big", "nv": nv, "salt": k})
            continue
        sizes += json.loads(out.decode().strip().splitlines()[-1])["summary"]["test_nodes"]
    n = 0
    for f in sorted(os.listdir(d)):
        if not f.endswith(".json"):
            continue
        st = json.load(open(os.path.join(d, f)))
        salt = int(f.split("_")[1])
        if not st["ok"]:
            run.violation("dot:panic:big", "render_dot failed on a random diagram over %d variables" % nv, {"mode": "dot-big", "nv": nv, "salt": salt})
            continue
        try:
            why = check_big_dot(open(os.path.join(d, f[:-5] + ".dot"), encoding="utf-8", errors="replace").read(), st)
        except (ValueError, KeyError, IndexError) as ex:
            why = "DOT text cannot be read back: %s" % ex
        n += 1
        if why:
            run.violation("dot:big:" + why.split(" ")[0], "random diagram over %d variables (%d test nodes), filter %s: %s"
                          % (nv, len(st["var"]), st["filter"], why), {"mode": "dot-big", "nv": nv, "salt": salt})
    run.extra.setdefault("i2s", {})["big_diagrams"] = {"exports": n, "variables": nv, "test_nodes": sizes}
    run.impl_traces += n
    run.evaluations += n


def replay_cli_run(prop, rp):
    run = Run(prop, "quick")
    camp = CliCampaign(run, "replay")
    it = rp["item"]
    argv = it["argv"]
    camp.add(it["text"], it["order"], filt=it["filter"], retain=it["retain"], model=it["model"], table="-t" in argv,
             vars_="-v" in argv, export="-r" in argv, dot="-d" in argv, ptree="-p" in argv, api=True)
    camp.execute()
    groups = camp.events()
    validate_cli_groups(run, groups, "replay", {"C07", "C08", "C10", "C11", "C12", "C14", "C20"})
    for key, desc, _ in run.violations:
        log("replay: %s" % desc[:400])
    return not run.violations


def replay_dot_case(prop, rp):
    run = Run(prop, "quick")
    c14(run)
    return not run.violations


def cli_model_retain(run, which):
    """CLI part of C07 (-m) / C20 (-c): validated by Trace_Cli's ModelTableOK / RetainTableOK."""
    t = run.tier == "thorough"
    camp = CliCampaign(run, which)
    rnd = camp.rnd
    for text in formulas_for(run, 200 if t else 40, 5):
        names = names_of_formula(text)
        ovs = order_variants(names, rnd)
        if which == "model":
            for flt in ("Any", "True"):
                camp.add(text, rnd.choice(ovs), model=True, filt=flt, channel=rnd.choice(["evaluate", "file", "stdin"]))
            camp.add(text, rnd.choice(ovs), model=True, filt="False")
            # -m together with -c: retain first, then extract the model of the retained diagram
            for rt in ("True", "False"):
                o = rnd.choice(ovs)
                base = camp.add(text, o, retain=rt, filt="Any")
                camp.add(text, o, retain=rt, model=True, filt=rnd.choice(["Any", "True"]), base=base)
            # -m together with -v / -d: every output of the run describes the model
            camp.add(text, rnd.choice(ovs), model=True, vars_=True, table=True, filt=rnd.choice(["Any", "True", "False"]))
            camp.add(text, rnd.choice(ovs), model=True, dot=True, table=True, filt=rnd.choice(["Any", "True", "False"]))
        else:
            for rt in ("True", "False", "Any"):
                camp.add(text, rnd.choice(ovs), retain=rt, filt=rnd.choice(["Any", "True", "False"]))
            rt = rnd.choice(["True", "False"])
            camp.add(text, rnd.choice(ovs), retain=rt, vars_=True, table=True, filt=rnd.choice(["Any", "True", "False"]))
            camp.add(text, rnd.choice(ovs), retain=rt, dot=True, table=True, filt=rnd.choice(["Any", "True", "False"]))
    camp.execute()
    groups = camp.events()
    validate_cli_groups(run, groups, which, {"C07"} if which == "model" else {"C20"})
    run.extra.setdefault("cli_runs", 0)
    run.extra["cli_runs"] += sum(len(g) for g in groups.values())


CHECKS = {"C10": c10, "C11": c11, "C14": c14}
def replay_dot_big(prop, rp):
    run = Run(prop, "quick")
    big_dot_cases(run, rp["nv"], rp["salt"] + 1, only=rp["salt"])
    for key, desc, _ in run.violations:
        log("replay: %s" % desc[:400])
    return not run.violations


REPLAYS = {"cli-run": replay_cli_run, "dot-case": replay_dot_case, "dot-big": replay_dot_big}
