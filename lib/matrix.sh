#!/bin/bash
# Seeded-change matrix: every seeded change x every check (quick tier), on a scratch copy of the
# repository (never /repo).  Run from a snapshot:  vp run --with-repo -- bash lib/matrix.sh
# Output: work/matrix.tsv  (seed, check, exit status)
set -u
REPO_COPY=${VP_RUN_REPO:?needs vp run --with-repo}
export VERIF_REPO=$REPO_COPY
sed -i "s#path = \"/repo\"#path = \"$REPO_COPY\"#" harness/Cargo.toml
mkdir -p work
: > work/matrix.tsv
CHECKS="C01 C02 C03 C04 C05 C06 C07 C08 C09 C10 C11 C12 C13 C14 C15 C16 C17 C18 C19 C20"
for seed in $CHECKS; do
  git -C "$REPO_COPY" checkout -q -- . 
  git -C "$REPO_COPY" apply "$PWD/seeded/$seed/patch.diff" || { echo "$seed patch failed"; continue; }
  for c in ${MATRIX_CHECKS:-$CHECKS}; do
    timeout 3600 ./check $c --tier quick > work/m_${seed}_$c.log 2>&1
    rc=$?
    printf "%s\t%s\t%s\t%s\n" "$seed" "$c" "$rc" "$(grep -c '^VIOLATION' work/m_${seed}_$c.log)" >> work/matrix.tsv
  done
  git -C "$REPO_COPY" checkout -q -- .
done
cat work/matrix.tsv
