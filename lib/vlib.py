"""Common plumbing for /verif/check: building, running TLC, the harness, evidence, findings."""
import hashlib
import json
import os
import re
import shutil
import subprocess
import sys
import time

sys.setrecursionlimit(100000)   # generator outputs are conjunction chains thousands of nodes deep (JSON decoding recurses)
ROOT = os.path.dirname(os.path.dirname(os.path.abspath(__file__)))
SPEC = os.path.join(ROOT, "spec")
WORK = os.path.join(ROOT, "work")
REPLAY_DIR = os.path.join(ROOT, "replays")
EVID = os.path.join(ROOT, "evidence")
TARGET = os.path.join(ROOT, "target")
HARNESS_DIR = os.path.join(ROOT, "harness")
HARNESS_BIN = os.path.join(TARGET, "harness", "debug", "rsbdd-conform")
REPO = os.environ.get("VERIF_REPO", "/repo")   # the tree under test (a scratch copy for the seeded-change matrix)
REPO_BIN_DIR = os.path.join(TARGET, "repo", "debug")
KNOWN = os.path.join(ROOT, "known_findings.json")
NCPU = os.cpu_count() or 4


class ToolError(Exception):
    """The tooling itself failed (exit 2) -- never reported as a violation."""


def seed():
    try:
        return int(os.environ.get("VERIF_SEED", "1"))
    except ValueError:
        return 1


def log(*a):
    print(*a, file=sys.stderr, flush=True)


def cargo_env():
    e = dict(os.environ)
    e["CARGO_NET_OFFLINE"] = "true"
    return e


_built = {}


def build_harness():
    if _built.get("h"):
        return
    t = time.time()
    p = subprocess.run(["cargo", "build", "--offline"], cwd=HARNESS_DIR, env=cargo_env(),
                       stdout=subprocess.PIPE, stderr=subprocess.STDOUT, text=True)
    if p.returncode != 0:
        raise ToolError("harness build failed (does /repo still compile?):\n" + p.stdout[-4000:])
    _built["h"] = True
    log("[build] harness %.1fs" % (time.time() - t))


def build_repo_bins():
    """Build rsbdd and the four generators from /repo's working tree into /verif/target/repo."""
    if _built.get("r"):
        return
    t = time.time()
    e = cargo_env()
    e["CARGO_PROFILE_DEV_OPT_LEVEL"] = "2"
    e["CARGO_PROFILE_DEV_DEBUG"] = "false"
    p = subprocess.run(["cargo", "build", "--offline", "--workspace", "--bins",
                        "--target-dir", os.path.join(TARGET, "repo")],
                       cwd=REPO, env=e, stdout=subprocess.PIPE, stderr=subprocess.STDOUT, text=True)
    if p.returncode != 0:
        raise ToolError("repo build failed:\n" + p.stdout[-4000:])
    _built["r"] = True
    log("[build] repo binaries %.1fs" % (time.time() - t))


def repo_bin(name):
    return os.path.join(REPO_BIN_DIR, name)


def fresh_dir(*parts):
    d = os.path.join(WORK, *parts)
    shutil.rmtree(d, ignore_errors=True)
    os.makedirs(d, exist_ok=True)
    return d


class TlcResult:
    def __init__(self):
        self.ok = False
        self.generated = 0
        self.distinct = 0
        self.depth = 0
        self.error = None       # text of the first "Error:" block
        self.violated = None    # name of violated invariant / property
        self.output = ""
        self.actions = {}       # action name -> (distinct states found, states generated)
        self.wall = 0.0
        self.printed = []       # lines printed by PrintT (raw)
        self.timeout = False


_ACTION_RE = re.compile(r"^<(\w+) line \d+, col \d+ to line \d+, col \d+ of module (\w+)(?: \([\d ]+\))?>: (\d+):(\d+)")


def run_tlc(module, cfg_text, workdir, workers=None, env=None, timeout=1800, simulate=None,
            xmx="8g", deque=False, extra=None, coverage=True, seed_arg=True):
    """Run TLC on spec/<module>.tla with the given cfg text inside workdir (all spec modules are
    copied there so that TLC's generated files never touch /verif/spec)."""
    os.makedirs(workdir, exist_ok=True)
    for f in os.listdir(SPEC):
        if f.endswith(".tla"):
            shutil.copy(os.path.join(SPEC, f), os.path.join(workdir, f))
    cfg = os.path.join(workdir, module + ".cfg")
    with open(cfg, "w") as fh:
        fh.write(cfg_text)
    if workers is None:
        workers = min(NCPU, 16)
    jopts = ["-Xss1g", "-Xmx" + xmx, "-XX:+UseParallelGC", "-XX:ParallelGCThreads=%d" % max(2, min(8, workers))]
    if deque:
        jopts.append("-Dtlc2.tool.queue.IStateQueue=StateDeque")
    cmd = ["java"] + jopts + ["-cp", "/opt/veriftools/tla/tla2tools.jar:/opt/veriftools/tla/CommunityModules-deps.jar",
                              "tlc2.TLC", "-workers", str(workers), "-metadir", os.path.join(workdir, "md"),
                              "-cleanup", "-noGenerateSpecTE", "-config", cfg]
    if coverage:
        cmd += ["-coverage", "1"]
    if seed_arg:
        cmd += ["-seed", str(seed())]
    if simulate:
        cmd += ["-simulate", simulate]
    if extra:
        cmd += extra
    cmd.append(os.path.join(workdir, module + ".tla"))
    e = dict(os.environ)
    e.pop("JAVA_TOOL_OPTIONS", None)
    if env:
        e.update({k: str(v) for k, v in env.items()})
    t = time.time()
    res = TlcResult()
    try:
        p = subprocess.run(cmd, cwd=workdir, env=e, stdout=subprocess.PIPE, stderr=subprocess.STDOUT,
                           text=True, timeout=timeout)
        out = p.stdout
        rc = p.returncode
    except subprocess.TimeoutExpired as ex:
        out = (ex.stdout or b"").decode("utf-8", "replace") if isinstance(ex.stdout, bytes) else (ex.stdout or "")
        rc = -1
        res.timeout = True
    res.wall = time.time() - t
    res.output = out
    err_lines = []
    in_err = False
    for line in out.splitlines():
        if line.startswith("The coverage statistics at"):
            res.actions = {}   # interim dumps are superseded by the final one
        m = _ACTION_RE.match(line)
        if m:
            name = m.group(1)
            a, b = int(m.group(3)), int(m.group(4))
            old = res.actions.get(name, (0, 0))
            res.actions[name] = (old[0] + a, old[1] + b)
            continue
        m = re.match(r"^(\d+) states generated, (\d+) distinct states found", line)
        if m:
            res.generated, res.distinct = int(m.group(1)), int(m.group(2))
        m = re.match(r"^The depth of the complete state graph search is (\d+)", line)
        if m:
            res.depth = int(m.group(1))
        if line.startswith("Error:"):
            in_err = True
            m = re.match(r"Error: Invariant (\w+) is violated", line)
            if m:
                res.violated = m.group(1)
            m = re.match(r"Error: Action property (\w+) is violated", line)
            if m:
                res.violated = m.group(1)
        if in_err and len(err_lines) < 60 and not line.startswith('<<"'):
            err_lines.append(line[:400])
    if err_lines:
        res.error = "\n".join(err_lines)
    res.ok = (rc == 0 and not err_lines and not res.timeout
              and "Model checking completed. No error has been found." in out or
              (simulate is not None and rc == 0 and not err_lines))
    # drop the per-run state directory; keep the output for diagnosis
    shutil.rmtree(os.path.join(workdir, "md"), ignore_errors=True)
    with open(os.path.join(workdir, module + ".out"), "w") as fh:
        fh.write(out)
    return res


def run_harness(args, env=None, timeout=3600, stdin=None):
    build_harness()
    e = dict(os.environ)
    e["VERIF_SEED"] = str(seed())
    if env:
        e.update({k: str(v) for k, v in env.items()})
    p = subprocess.run([HARNESS_BIN] + args, env=e, stdout=subprocess.PIPE, stderr=subprocess.PIPE,
                       text=True, timeout=timeout, input=stdin)
    if p.returncode != 0:
        raise ToolError("harness %s exited %d:\n%s" % (args, p.returncode, p.stderr[-3000:]))
    lines = [json.loads(l) for l in p.stdout.splitlines() if l.strip()]
    summary = None
    mism = []
    for l in lines:
        if "summary" in l:
            summary = l["summary"]
        elif "mismatch" in l:
            mism.append(l["mismatch"])
    if summary is None:
        raise ToolError("harness produced no summary: " + p.stdout[-500:] + p.stderr[-2000:])
    return summary, mism


def load_known():
    if not os.path.exists(KNOWN):
        return []
    with open(KNOWN) as fh:
        return json.load(fh).get("findings", [])


class Run:
    """Accumulates what one check covered, its violations, and writes the evidence file."""

    def __init__(self, prop, tier):
        self.prop = prop
        self.tier = tier
        self.t0 = time.time()
        self.states = 0
        self.transitions = 0
        self.impl_traces = 0
        self.evaluations = 0
        self.nontrivial = 0
        self.rule = ""
        self.samples = []
        self.violations = []      # (key, description, replay object)
        self.assumptions = []
        self.exhaustive = None
        self.extra = {}
        self.actions = {}
        self.tlc_runs = []

    def add_tlc(self, name, res, require_actions=None):
        if res.timeout:
            raise ToolError("TLC run %s timed out after %.0fs" % (name, res.wall))
        self.states += res.distinct
        self.transitions += res.generated
        for k, v in res.actions.items():
            o = self.actions.get(name + "." + k, (0, 0))
            self.actions[name + "." + k] = (o[0] + v[0], o[1] + v[1])
        self.tlc_runs.append({"run": name, "distinct": res.distinct, "generated": res.generated,
                              "depth": res.depth, "wall_s": round(res.wall, 1), "ok": res.ok})
        if require_actions:
            for a in require_actions:
                if res.actions.get(a, (0, 0))[1] == 0:
                    raise ToolError("vacuity guard: action %s of %s was never taken" % (a, name))

    def spec_must_hold(self, name, res):
        """A design-level TLC run must pass; otherwise the specification itself is broken."""
        if not res.ok:
            raise ToolError("TLC run %s failed on the specification:\n%s" % (name, (res.error or res.output[-3000:])))

    def violation(self, key, desc, replay):
        self.violations.append((key, desc, replay))

    def sample(self, s):
        if len(self.samples) < 6:
            self.samples.append(s)

    def finish(self):
        os.makedirs(EVID, exist_ok=True)
        os.makedirs(REPLAY_DIR, exist_ok=True)
        known = [k for k in load_known() if k.get("property") == self.prop and k.get("status") == "open"]
        new = []
        seen_known = {}
        for key, desc, replay in self.violations:
            hit = None
            for k in known:
                if re.search(k["match"], key):
                    hit = k
                    break
            if hit is not None:
                seen_known.setdefault(hit["id"], (hit, key))
            else:
                new.append((key, desc, replay))
        for fid, (k, key) in seen_known.items():
            print("KNOWN-FINDING: property=%s %s (%s)" % (self.prop, k["what"], fid))
        rc = 0
        shown = 0
        for i, (key, desc, replay) in enumerate(new):
            if shown >= 10:
                break
            path = os.path.join(REPLAY_DIR, "%s-%d-%d.json" % (self.prop, seed(), i))
            with open(path, "w") as fh:
                json.dump({"property": self.prop, "key": key, "what": desc, "replay": replay}, fh, indent=1)
            log("  violation: %s -- %s" % (key, desc))
            print("VIOLATION property=%s replay=%s" % (self.prop, path))
            shown += 1
            rc = 1
        cov = {
            "states": self.states,
            "transitions": self.transitions,
            "traces_validated_against_impl": self.impl_traces,
            "samples": self.samples if self.samples else ["(no sample recorded)"],
            "evaluations": self.evaluations,
            "distinct_nontrivial": self.nontrivial,
            "rule": self.rule,
            "tlc_runs": self.tlc_runs,
            "actions": {k: list(v) for k, v in sorted(self.actions.items())},
        }
        if self.exhaustive is not None:
            cov["exhaustive"] = self.exhaustive
        cov.update(self.extra)
        ev = {
            "property_id": self.prop,
            "tier": self.tier,
            "seed": seed(),
            "level": "model_checking",
            "coverage": cov,
            "assumptions": self.assumptions,
            "wall_s": round(time.time() - self.t0, 1),
            "violations": len(new),
            "known_findings_seen": sorted(seen_known.keys()),
        }
        with open(os.path.join(EVID, self.prop + ".json"), "w") as fh:
            fh.write(json.dumps(ev, separators=(",", ":")).replace(',"', ',\n "', 12) + "\n")
        log("[%s %s] states=%d transitions=%d impl=%d evals=%d violations=%d wall=%.1fs" % (
            self.prop, self.tier, self.states, self.transitions, self.impl_traces, self.evaluations,
            len(new), time.time() - self.t0))
        return rc


def cfg(constants, spec="Spec", invariants=("Holds",), extra=""):
    lines = ["CONSTANTS"]
    for k, v in constants.items():
        if isinstance(v, bool):
            v = "TRUE" if v else "FALSE"
        elif isinstance(v, str):
            v = '"%s"' % v
        lines.append("  %s = %s" % (k, v))
    lines.append("SPECIFICATION %s" % spec)
    for i in invariants:
        lines.append("INVARIANT %s" % i)
    lines.append("CHECK_DEADLOCK FALSE")
    if extra:
        lines.append(extra)
    return "\n".join(lines) + "\n"


def sha(s):
    return hashlib.sha256(s.encode()).hexdigest()[:16]


class RejList(list):
    """indices of rejected records, with .reasons: index -> verdict text"""
    reasons = {}


def validate_trace(module, trace_path, constants, name, shards=8, timeout=1800, xmx="3g", boundary=None, extra_cfg=""):
    """impl -> spec: run the trace specification `module` over an ndjson trace.  The trace is cut
    into shards (records are independent or delimited by the caller), each validated by a
    single-worker TLC.  Returns (accepted, rejected_indices (0-based, global), tlc results)."""
    from concurrent.futures import ThreadPoolExecutor
    with open(trace_path) as fh:
        lines = [l for l in fh if l.strip()]
    n = len(lines)
    if n == 0:
        raise ToolError("empty trace " + trace_path)
    shards = max(1, min(shards, (n + 199) // 200))
    per = (n + shards - 1) // shards
    # cut points: every `per` lines, moved forward to the next boundary record (stateful traces)
    cuts = [0]
    for k in range(1, shards):
        c = max(k * per, cuts[-1])
        if boundary is not None:
            while c < n and boundary not in lines[c]:
                c += 1
        if c < n and c > cuts[-1]:
            cuts.append(c)
    cuts.append(n)
    jobs = []
    for k in range(len(cuts) - 1):
        part = lines[cuts[k]:cuts[k + 1]]
        d = fresh_dir(name, "shard%d" % k)
        tp = os.path.join(d, "trace.ndjson")
        with open(tp, "w") as fh:
            fh.writelines(part)
        jobs.append((k, d, tp, len(part)))
    cfg_text = cfg(constants, invariants=(), extra=("POSTCONDITION Consumed\n" + extra_cfg).strip())

    def one(job):
        k, d, tp, cnt = job
        # no -coverage here: TLC's coverage instrumentation slows these constant-heavy specs down by
        # an order of magnitude; the number of Step transitions is the number of distinct states - 1
        res = run_tlc(module, cfg_text, d, workers=1, env={"TRACE": tp}, timeout=timeout,
                      xmx=xmx, deque=True, coverage=False, seed_arg=False)
        res.actions = {"Step": (max(0, res.distinct - 1), max(0, res.generated - 1))}
        return job, res

    with ThreadPoolExecutor(max_workers=min(len(jobs), NCPU)) as ex:
        results = list(ex.map(one, jobs))
    rejected = []
    reasons = {}
    tlcs = []
    for (k, d, tp, cnt), res in results:
        tlcs.append(res)
        # one string per rejection (TLC wraps long tuples over several lines, a string stays on one)
        rej = [(int(m.group(1)), m.group(2) or "") for m in re.finditer(r'^"REJECT\|(\d+)\|([^"]*)"$', res.output, re.M)]
        if "REJECT" in res.output and not rej:
            raise ToolError("trace validation %s shard %d printed a rejection that could not be read" % (name, k))
        inc = re.search(r'<<"INCOMPLETE", (\d+)>>', res.output)
        if res.timeout:
            raise ToolError("trace validation %s shard %d timed out" % (name, k))
        if inc or res.distinct != cnt + 1 or (res.error and "postcondition" not in (res.error or "").lower()):
            raise ToolError("trace validation %s shard %d did not consume its trace (%d of %d):\n%s" % (
                name, k, res.distinct - 1, cnt, res.error or res.output[-2000:]))
        for i, why in rej:
            rejected.append(cuts[k] + (i - 1))
            reasons[cuts[k] + (i - 1)] = why
    validate_trace.reasons = reasons
    rej = RejList(sorted(rejected))
    rej.reasons = reasons
    return n - len(rejected), rej, tlcs, lines
