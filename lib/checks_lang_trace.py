"""impl -> spec for the formula language (Trace_Lang)."""
import json
import os
import subprocess

from vlib import *

REASON_PROP = {
    "truth table differs from the documented meaning": "C01",
    "constant answer wrong": "C01",
    "free variables differ": "C09",
    "variable list differs": "C09",
    "result depends on a bound name": "C09",
    "tokenizer Ok/Err differs": "C08",
    "token list differs": "C08",
    "accepted a text that is not a sentence": "C08",
    "rejected a sentence": "C08",
    "tree differs from the grammar's": "C08",
    "panic / unknown record": "C12",
}


def lang_trace_cfg(nnames=6):
    return {"NV": nnames}, "CONSTANT NameSeq <- NS%d" % nnames


def validate_lang_trace(run, tr, label, props, shards=12):
    """Records are grouped by their number of names k (NameSeq <- NSk, NV = k) and validated per group."""
    groups = {}
    with open(tr) as fh:
        for line in fh:
            if not line.strip():
                continue
            rec = json.loads(line)
            k = max(1, len(rec["vars"])) if rec.get("k") == "formula" else 1
            groups.setdefault(k, []).append(line)
    total_acc, all_lines, all_rej = 0, [], []
    from concurrent.futures import ThreadPoolExecutor
    jobs = []
    for k, ls in sorted(groups.items()):
        gp = tr + ".k%d" % k
        with open(gp, "w") as fh:
            fh.writelines(ls)
        jobs.append((k, gp, ls))

    def one(job):
        k, gp, ls = job
        consts, extra = lang_trace_cfg(k)
        sh = max(1, min(shards, len(ls) // 40 + 1)) if k >= 4 else max(1, min(4, len(ls) // 300 + 1))
        return job, validate_trace_x("Trace_Lang", gp, consts, os.path.join(run.prop, "tv_%s_k%d" % (label, k)), extra, sh)

    with ThreadPoolExecutor(max_workers=3) as ex:
        results = list(ex.map(one, jobs))
    for (k, gp, ls), (acc, rej, tlcs, lines) in results:
        for i, r in enumerate(tlcs):
            run.add_tlc("trace_%s_k%d_%d" % (label, k, i), r, require_actions=["Step"])
        total_acc += acc
        base = len(all_lines)
        all_lines += lines
        for i in rej:
            all_rej.append((base + i, rej.reasons.get(i, "")))
    run.impl_traces += total_acc
    run.evaluations += len(all_lines)
    lines = all_lines
    for i, why in all_rej:
        rec = json.loads(lines[i])
        owner = REASON_PROP.get(why, "C01" if rec.get("k") == "formula" else "C08")
        if rec.get("k") == "outcome" and rec.get("stage") == "second eval" and props:
            # evaluating the same ParsedFormula twice gave two answers (or the second evaluation panicked): state carried over
            owner = sorted(props)[0]
            why = "second evaluation of the same formula object: %s" % rec.get("panic", "")[:80]
        if why.startswith("specification:"):
            raise ToolError("Trace_Lang: %s for recorded text %r" % (why, rec.get("text")))
        if owner in props:
            text = rec.get("text", "".join(rec.get("chars", [])))
            run.violation("lang-i2s:%s" % why, "Trace_Lang rejects record %d (%s): text %r" % (i, why, text[:300]),
                          {"mode": "formula-text", "text": text, "tag": why})
    return total_acc, [i for i, _ in all_rej], lines


def validate_trace_x(module, trace, constants, name, extra_cfg, shards):
    """validate_trace with extra cfg lines (constant substitutions)."""
    return validate_trace(module, trace, constants, name, shards=shards, extra_cfg=extra_cfg)


def record_formulas(run, count, props, label="rand"):
    build_harness()
    d = fresh_dir(run.prop, "rec_" + label)
    tr = os.path.join(d, "trace.ndjson")
    progress = os.path.join(d, "progress.txt")
    e = dict(os.environ)
    e["VERIF_SEED"] = str(seed())
    try:
        p = subprocess.run([HARNESS_BIN, "record-lang", tr, str(count), "6", progress], env=e, stdout=subprocess.PIPE,
                           stderr=subprocess.DEVNULL, text=True, timeout=900)
    except subprocess.TimeoutExpired:
        text = open(progress).read()
        run.violation("lang:hang", "evaluation of a monotone (convergent) formula does not terminate: %r" % text[:300],
                      {"mode": "formula-text", "text": text, "tag": "hang"})
        return None
    if p.returncode != 0:
        raise ToolError("record-lang failed")
    summary = json.loads(p.stdout.strip().splitlines()[-1])["summary"]
    run.extra.setdefault("i2s", {})[label] = summary
    acc, rej, lines = validate_lang_trace(run, tr, label, props)
    run.sample({"direction": "impl->spec", "record": {k: v for k, v in json.loads(lines[len(lines) // 3]).items() if k in ("text", "ast", "fv", "vars")}})
    return summary
