#!/bin/bash
# All quick tiers on a scratch copy of the repository:  vp run --with-repo -- bash lib/quick_all.sh
set -u
REPO_COPY=${VP_RUN_REPO:?needs vp run --with-repo}
export VERIF_REPO=$REPO_COPY
sed -i "s#path = \"/repo\"#path = \"$REPO_COPY\"#" harness/Cargo.toml
for c in ${QUICK_CHECKS:-C01 C02 C03 C04 C05 C06 C07 C08 C09 C10 C11 C12 C13 C14 C15 C16 C17 C18 C19 C20}; do
  /usr/bin/time -f "$c %es %MKB" ./check $c --tier quick 2>&1 | grep -E "violation:|^\[C|VIOLATION|TOOL|Error|^C[0-9]+ [0-9.]+s" | cut -c1-300
done
