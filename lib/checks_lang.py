"""C01, C06, C08, C09 (and the language part of C12): Syntax.tla / Lang.tla against src/parser.rs."""
import json
import os
import subprocess

from vlib import *

NAMES3 = 'CONSTANT NameSeq <- NS_abX\nCONSTANT FixVars = {"X", "b"}'
NAMES2 = 'CONSTANT NameSeq <- NS_aX\nCONSTANT FixVars = {"X"}'


def parse_cases(output):
    cases = []
    for line in output.splitlines():
        if line.startswith('<<"CASE", "'):
            cases.append(json.loads(json.loads(line[len('<<"CASE", '):-2])))
    return cases


def mc_lang(run, name, depth, mode, emit, samplek, names=NAMES3, nv=3, simulate=None, timeout=3000, checkk=1):
    d = fresh_dir(run.prop, name)
    c = cfg({"NV": nv, "MaxDepth": depth, "Mode": mode, "Emit": emit, "SampleK": samplek, "CheckK": checkk}, extra=names)
    if simulate:
        res = run_tlc("MC_Lang", c, d, workers=8, timeout=timeout, simulate=simulate, extra=["-depth", str(depth + 1)], coverage=False)
        m = re.search(r"The number of states generated: (\d+)", res.output)
        gen = int(m.group(1)) if m else 0
        run.states += gen
        run.transitions += gen
        run.tlc_runs.append({"run": name, "mode": "simulate", "states_generated": gen, "wall_s": round(res.wall, 1)})
        if res.error or res.timeout:
            raise ToolError("MC_Lang simulation failed on the specification: %s" % (res.error or "timeout"))
    else:
        res = run_tlc("MC_Lang", c, d, timeout=timeout)
        run.add_tlc(name, res, require_actions=["Grow"] if depth > 0 else None)
        run.spec_must_hold(name, res)
    cases = parse_cases(res.output) if emit else []
    path = os.path.join(d, "cases.ndjson")
    with open(path, "w") as fh:
        for cse in cases:
            fh.write(json.dumps(cse) + "\n")
    # the raw TLC output with the CASE lines is large; keep only the rest
    with open(os.path.join(d, "MC_Lang.out"), "w") as fh:
        fh.write("\n".join(l for l in res.output.splitlines() if not l.startswith('<<"CASE"')))
    return path, cases, res


def mc_nest(run, binders, checkk=1):
    """MC_Nest: the family of nested fixed points (every kind combination, bodies ranging over an enclosing value through a
    quantifier, self-supporting inner bodies): TLC checks Ev = Canon(Sem) and emits the truth tables for the replay"""
    d = fresh_dir(run.prop, "mc_nest%d" % binders)
    names = {1: NAMES3, 2: 'CONSTANT NameSeq <- NS_aXY\nCONSTANT FixVars = {"X", "Y"}',
             3: 'CONSTANT NameSeq <- NS_aYXZ\nCONSTANT FixVars = {"X", "Y", "Z"}'}[binders]
    c = cfg({"NV": {1: 3, 2: 3, 3: 4}[binders], "Binders": binders, "Emit": True, "CheckK": checkk}, extra=names)
    res = run_tlc("MC_Nest", c, d, timeout=3600)
    run.add_tlc("mc_nest%d" % binders, res)
    run.spec_must_hold("mc_nest%d" % binders, res)
    cases = parse_cases(res.output)
    path = os.path.join(d, "cases.ndjson")
    with open(path, "w") as fh:
        for cse in cases:
            fh.write(json.dumps(cse) + "\n")
    with open(os.path.join(d, "MC_Nest.out"), "w") as fh:
        fh.write("\n".join(l for l in res.output.splitlines() if not l.startswith('<<"CASE"')))
    return path, cases


def harness_with_watchdog(sub, cases_path, stall=90):
    """Run a replay sub-command.  A hang of the code under test on a case the specification says terminates
    is data: the harness rewrites a progress file before every case; when it has not changed for `stall`
    seconds the process is killed, the case is reported and the run resumes after it."""
    import time as _t
    build_harness()
    d = os.path.dirname(cases_path)
    progress = os.path.join(d, "progress.txt")
    skip = 0
    mism = []
    hangs = []
    agg = None
    while True:
        e = dict(os.environ)
        e["VERIF_SEED"] = str(seed())
        outp = os.path.join(d, "replay_stdout.txt")
        open(progress, "w").write("")
        with open(outp, "w") as fo:
            p = subprocess.Popen([HARNESS_BIN, sub, cases_path, progress, str(skip)], env=e, stdout=fo, stderr=subprocess.DEVNULL)
            last, last_change = None, _t.time()
            hung = False
            while p.poll() is None:
                _t.sleep(0.5)
                try:
                    cur = open(progress).read()
                except OSError:
                    cur = last
                if cur != last:
                    last, last_change = cur, _t.time()
                elif _t.time() - last_change > stall:
                    p.kill()
                    p.wait()
                    hung = True
                    break
        lines = open(outp).read().splitlines()
        for l in lines:
            try:
                j = json.loads(l)
            except ValueError:
                continue
            if "mismatch" in j:
                mism.append(j["mismatch"])
            elif "summary" in j:
                agg = j["summary"]
        if not hung:
            if p.returncode != 0:
                raise ToolError("harness %s exited %d" % (sub, p.returncode))
            break
        prog = (last or "").split("\n", 1)
        if not prog[0].strip().isdigit():
            raise ToolError("harness %s stalled before its first case" % sub)
        ci, txt = int(prog[0]), (prog[1] if len(prog) > 1 else "")
        hangs.append({"case": ci, "text": txt})
        skip = ci + 1
        if len(hangs) >= 4:
            # enough evidence: every hang is reported as a violation; the remaining cases are not replayed
            agg = {"cases": ci + 1, "evaluations": 0, "mismatches": len(mism), "kinds": {}, "token_kinds_spelled": [],
                   "nonconstant_formulas": 0, "samples": [], "monotone_bodies": 0, "stopped_after_hangs": len(hangs)}
            break
    if agg is None:
        raise ToolError("harness %s produced no summary" % sub)
    return agg, mism, hangs


def replay_lang(run, cases_path, label, props):
    """props: which mismatch owners (C01/C08/C09/C12/C02) this check reports."""
    summary, mism, hangs = harness_with_watchdog("replay-lang", cases_path)
    run.impl_traces += summary["cases"]
    run.evaluations += summary["cases"] * 3
    run.extra.setdefault("s2i", {})[label] = {k: summary[k] for k in ("cases", "evaluations", "mismatches", "kinds", "token_kinds_spelled", "nonconstant_formulas")}
    for s in summary["samples"]:
        run.sample({"direction": "spec->impl", "case": s})
    for m in mism:
        if m["prop"] in props:
            run.violation("lang:%s:%s" % (m["tag"], head_of(m["detail"])),
                          "%s on text %r: %s" % (m["tag"], m["text"][:200], json.dumps(m["detail"])[:500]),
                          {"mode": "formula-text", "text": m["text"], "tag": m["tag"], "expect": m["detail"]})
    if "C01" in props or "C06" in props:
        for h in hangs:
            run.violation("lang:hang", "evaluation does not terminate although the specification converges: %r" % h["text"][:200],
                          {"mode": "formula-text", "text": h["text"], "tag": "hang"})
    return summary


def head_of(detail):
    t = detail.get("expected") if isinstance(detail, dict) else None
    if isinstance(t, list) and t and isinstance(t[0], str):
        return t[0]
    return ""


def lang_cases(run, t):
    """Exhaustive depth-2 builder check (1 M formulas) + emitted sample, and a deeper simulation."""
    path, cases, res = mc_lang(run, "mc_lang_d2", 2, "lang", True, 12 if t else 100, timeout=7200)
    return path, cases


def c01(run):
    t = run.tier == "thorough"
    run.rule = ("MC_Lang: Ev = Canon(Sem) for every spine formula of depth <= 2 over {a,b,X} (all node kinds, 1.0 M formulas); every depth <= 1 "
                "formula and a 1/%d sample of depth 2 is rendered with random spellings/whitespace/comments (3 renderings, with and without an "
                "explicit ordering) and evaluated by the real solver; random deeper formulas (<= 6 names) are recorded and validated by "
                "Trace_Lang; non-trivial = non-constant truth tables") % (12 if t else 100)
    path, cases = lang_cases(run, t)
    s = replay_lang(run, path, "builder_d2", {"C01"})
    run.nontrivial = s["nonconstant_formulas"]
    # deeper spines by simulation: random walks of the builder to depth 3 (thorough 4); every successor of a
    # visited formula is checked by TLC, a sample is replayed through the real solver
    p3, cases3, res3 = mc_lang(run, "sim_lang_d3", 4 if t else 3, "lang", True, 8, simulate="num=%d" % (60 if t else 6), timeout=7200)
    if cases3:
        replay_lang(run, p3, "simulated_deep", {"C01"})
    # nested fixed points (a sample of the families of MC_Nest; C06 replays all of them)
    for binders, ck in ((2, 1 if t else 4), (3, 2 if t else 12)):
        pn, cn = mc_nest(run, binders, ck)
        replay_lang(run, pn, "nested_%d_binders" % binders, {"C01"})
    import checks_lang_trace
    checks_lang_trace.record_formulas(run, 30000 if t else 2500, {"C01"})
    run.exhaustive = True
    run.assumptions += ["fixed points the specification classifies as non-convergent within 2|Asg|+2 iterations are not executed",
                        "counting constants are capped at 10^6 in the specification (lists are far shorter)"]


def c09(run):
    t = run.tier == "thorough"
    run.rule = ("MC_Lang: Mentions(Ev(f)) within FV(f), FV within NamesOf for every spine formula of depth <= 2; real .free_vars/.vars/support "
                "compared for every emitted case under 3 renderings and 2 orderings; random deeper formulas validated by Trace_Lang; "
                "non-trivial = formulas with a binder")
    path, cases = lang_cases(run, t)
    s = replay_lang(run, path, "builder_d2", {"C09"})
    run.nontrivial = sum(1 for c in cases if json.dumps(c["t"]).count('"q"') + json.dumps(c["t"]).count('"fix"') > 0)
    import checks_lang_trace
    checks_lang_trace.record_formulas(run, 30000 if t else 2500, {"C09"})
    run.exhaustive = True


CHECKS = {"C01": c01, "C09": c09}
REPLAYS = {}


# ---------------------------------------------------------------------------
def parse_tagged(output, tag):
    pre = '<<"%s", ' % tag
    out = []
    for line in output.splitlines():
        if line.startswith(pre):
            out.append(json.loads(json.loads(line[len(pre):-2])))
    return out


def mc_syntax(run, mode, maxlen, samplek, name, timeout=3000):
    d = fresh_dir(run.prop, name)
    res = run_tlc("MC_Syntax", cfg({"Mode": mode, "MaxLen": maxlen, "SampleK": samplek}), d, timeout=timeout)
    run.add_tlc(name, res, require_actions=["Next"])
    run.spec_must_hold(name, res)
    cases = parse_tagged(res.output, "ACC" if mode == "tokens" else "TOK")
    path = os.path.join(d, "cases.ndjson")
    with open(path, "w") as fh:
        for c in cases:
            fh.write(json.dumps(c) + "\n")
    with open(os.path.join(d, "MC_Syntax.out"), "w") as fh:
        fh.write("\n".join(l for l in res.output.splitlines() if not l.startswith('<<"')))
    return path, cases


def report_syntax_mismatches(run, mism, props, label):
    for m in mism:
        if m["prop"] in props:
            run.violation("syntax:%s:%s" % (label, m["tag"]), "%s: text %r: %s" % (m["tag"], m["text"][:200], json.dumps(m["detail"])[:400]),
                          {"mode": "formula-text", "text": m["text"], "tag": m["tag"]})


def record_texts(run, count, props, label="texts"):
    d = fresh_dir(run.prop, "rec_" + label)
    tr = os.path.join(d, "trace.ndjson")
    summary, _ = run_harness(["record-text", tr, str(count)])
    run.extra.setdefault("i2s", {})[label] = summary
    import checks_lang_trace
    acc, rej, lines = checks_lang_trace.validate_lang_trace(run, tr, label, props)
    run.sample({"direction": "impl->spec", "record": {k: v for k, v in json.loads(lines[len(lines) // 2]).items() if k in ("text", "toks", "parse_ok", "tree")}})
    return summary


def c08(run):
    t = run.tier == "thorough"
    L = 6 if t else 5
    P = 3
    run.rule = ("MC_Syntax: every token sequence over the 20-class alphabet up to length %d is parsed by the grammar (TLC) and by the real parser "
                "(representative and random member/spelling/layout renderings): accept <=> sentence, same tree; every string of <= %d pieces of "
                "the character alphabet tokenized by both; Parse(Print(t)) = t for 1.0 M trees (MC_Lang); random/mutated texts validated by "
                "Trace_Lang; non-trivial = sentences + mutated texts") % (L, P)
    path, acc = mc_syntax(run, "tokens", L, 1, "mc_tokens", timeout=7200)
    summary, mism = run_harness(["replay-tokens", path, str(L)])
    run.impl_traces += summary["sequences"]
    run.evaluations += 2 * summary["sequences"]
    run.extra.setdefault("s2i", {})["tokens"] = {k: summary[k] for k in ("sequences", "mismatches", "panics", "sentences", "accepted_by_code", "maxlen")}
    for s in summary["samples"]:
        run.sample({"direction": "spec->impl", "case": s})
    # a panic on a text is neither a rejection nor the prescribed tree: it is reported here as well as by C12
    report_syntax_mismatches(run, mism, {"C08", "C12"}, "tokens")
    path, toks = mc_syntax(run, "chars", P if not t else 4, 1 if not t else 12, "mc_chars", timeout=7200)
    s2, mism2 = run_harness(["replay-chars", path])
    run.impl_traces += s2["strings"]
    run.evaluations += s2["strings"]
    run.extra["s2i"]["chars"] = {k: s2[k] for k in ("strings", "mismatches", "panics", "spec_rejects")}
    report_syntax_mismatches(run, mism2, {"C08", "C12"}, "chars")
    # printer / parser round trip on the formula builder + real parser on the rendered cases
    p3, cases, res = mc_lang(run, "mc_lang_d2", 2, "lang", True, 12 if t else 100, timeout=7200)
    replay_lang(run, p3, "builder_d2", {"C08", "C12"})
    st = record_texts(run, 20000 if t else 2000, {"C08", "C12"})
    run.nontrivial = summary["sentences"] + st["mutated"]
    run.exhaustive = True
    run.assumptions += ["characters outside the modelled alphabet (ASCII, e-acute, euro sign, arabic-indic digit three) are not generated"]


def c06(run):
    t = run.tier == "thorough"
    run.rule = ("MC_Lang Mode=fix: every spine body of depth <= 1 and a 1/40 sample of depth 2 (thorough: all of depth 2) over {a,X} plus simulated depth-3 spines (thorough: also {a,X,b}, depth 1): when semantically monotone "
                "in X (all subset pairs), lfp/gfp are the least/greatest fixed point among ALL subsets and pre/post-fixed points "
                "(Knaster-Tarski), reached within |Asg|+1 iterations by Sem and by the evaluator model; the same bodies with expected tables "
                "evaluated by the real solver with all four keywords; library fp() call counts; non-trivial = monotone bodies mentioning X")
    if t:
        path, cases, res = mc_lang(run, "mc_fix_d2", 2, "fix", True, 3, names=NAMES2, nv=2, timeout=7200)
    else:
        # every depth <= 1 body, and a seed-dependent 1/40 of the 750 k depth-2 bodies (checked and replayed)
        path, cases, res = mc_lang(run, "mc_fix_d2s", 2, "fix", True, 1, names=NAMES2, nv=2, timeout=7200, checkk=40)
    # deeper bodies by simulation (random spines of depth 3; every successor of a visited state is checked)
    p2, cases2, res2 = mc_lang(run, "sim_fix_d3", 3, "fix", True, 6, names=NAMES2, nv=2, simulate="num=%d" % (40 if t else 6), timeout=7200)
    with open(path, "a") as fh:
        for cse in cases2:
            fh.write(json.dumps(cse) + "\n")
    cases = cases + cases2
    summary, mism, hangs = harness_with_watchdog("replay-fix", path)
    run.impl_traces += summary["evaluations"]
    run.evaluations += summary["evaluations"]
    run.extra.setdefault("s2i", {})["fix_bodies"] = {k: summary[k] for k in ("cases", "evaluations", "mismatches", "monotone_bodies")}
    for s in summary["samples"]:
        run.sample({"direction": "spec->impl", "case": s})
    for m in mism:
        run.violation("fix:%s" % m["tag"], "fixed point on text %r: %s" % (m["text"][:200], json.dumps(m["detail"])[:400]),
                      {"mode": "formula-text", "text": m["text"], "tag": m["tag"]})
    for h in hangs:
        run.violation("fix:hang", "evaluation does not terminate on a monotone body: %r" % h["text"][:200],
                      {"mode": "formula-text", "text": h["text"], "tag": "hang"})
    # nested fixed points: every formula of the two-binder family, and of the three-binder family (quick: a third)
    for binders, ck in ((2, 1), (3, 1 if t else 3)):
        pn, cn = mc_nest(run, binders, ck)
        replay_lang(run, pn, "nested_%d_binders" % binders, {"C06", "C01"})
    if t:
        mc_lang(run, "mc_fix_d1_nv3", 1, "fix", False, 1, names='CONSTANT NameSeq <- NS_aXb\nCONSTANT FixVars = {"X"}', nv=3, timeout=7200)
    # library iterator fp(a, t): first fixed point of the sequence, number of calls
    dfp = fresh_dir(run.prop, "rec_fp")
    trfp = os.path.join(dfp, "trace.ndjson")
    s3, _ = run_harness(["record-fp", trfp, str(4000 if t else 400)])
    acc, rej, tlcs, lines = validate_trace("Trace_Bdd", trfp, {"NV": 3}, os.path.join(run.prop, "tv_fp"), shards=8)
    for i, r in enumerate(tlcs):
        run.add_tlc("trace_fp_%d" % i, r, require_actions=["Step"])
    run.impl_traces += acc
    run.evaluations += len(lines)
    run.extra.setdefault("i2s", {})["fp_iterator"] = s3
    for i in rej:
        run.violation("fix:fp-iterator", "Trace_Bdd rejects the recorded fp() call: %s" % lines[i].strip()[:400],
                      {"mode": "fp-record", "record": json.loads(lines[i])})
    import checks_lang_trace
    checks_lang_trace.record_formulas(run, 20000 if t else 1500, {"C01", "C06"})
    run.nontrivial = sum(1 for c in cases if any(c["mono"]) and '"X"' in json.dumps(c["t"]))
    run.exhaustive = True


def replay_formula_text(prop, rp):
    """--replay: tokenize/parse/evaluate the text on the current tree; Trace_Lang must accept it."""
    import checks_lang_trace
    d = fresh_dir(prop, "replay")
    cin, tr1, tr2 = os.path.join(d, "texts.json"), os.path.join(d, "text.ndjson"), os.path.join(d, "formula.ndjson")
    with open(cin, "w") as fh:
        json.dump([rp["text"]], fh)
    run_harness(["exec-text", cin, tr1])
    run = Run(prop, "quick")
    ok = True
    rec = json.loads(open(tr1).read().splitlines()[0])
    log("text record: %s" % json.dumps(rec)[:600])
    in_alphabet = all(ord(c) < 128 or c in "é€٣" for c in rp["text"])
    if rec.get("k") == "outcome":
        ok = False
    elif in_alphabet:
        acc, rej, lines = checks_lang_trace.validate_lang_trace(run, tr1, "replay_text", {"C01", "C06", "C08", "C09", "C12"})
        ok = ok and not rej
    if ok and rec.get("parse_ok"):
        try:
            subprocess.run([HARNESS_BIN, "exec-lang", cin, tr2, "6"], stdout=subprocess.PIPE, stderr=subprocess.DEVNULL, timeout=120, check=True)
        except subprocess.TimeoutExpired:
            log("evaluation does not terminate")
            return False
        rec2 = json.loads(open(tr2).read().splitlines()[0])
        log("formula record: %s" % json.dumps(rec2)[:600])
        if rec2.get("k") == "outcome":
            return "rejected" in rec2
        acc, rej, lines = checks_lang_trace.validate_lang_trace(run, tr2, "replay_formula", {"C01", "C06", "C08", "C09", "C12"})
        ok = ok and not rej
    return ok


CHECKS.update({"C08": c08, "C06": c06})
def replay_fp_record(prop, rp):
    d = fresh_dir(prop, "replay")
    tr = os.path.join(d, "trace.ndjson")
    summary, _ = run_harness(["record-fp", tr, "400"])
    acc, rej, tlcs, lines = validate_trace("Trace_Bdd", tr, {"NV": 3}, os.path.join(prop, "replay_tv"), shards=4)
    return not rej


REPLAYS.update({"formula-text": replay_formula_text, "fp-record": replay_fp_record})


def c12(run):
    t = run.tier == "thorough"
    import checks_lang_trace
    import checks_cli
    run.rule = ("every token sequence (length <= 4) and piece string (<= 3 pieces) of the C08 universes as formula; seeded byte-level inputs "
                "(random bytes incl. invalid UTF-8, token soups, mutated valid formulas, extreme and non-ASCII digits, unbalanced "
                "brackets/quotes, empty, nesting <= 200, up to 64 KiB) as formula and as ordering file in-process (parse + evaluation where "
                "fixed points are absent and counting lists short) and through the binary with random option sets; outcome must be Ok/Err "
                "(exit 0/1); non-trivial = inputs the parser rejects or that are not valid UTF-8")
    # spec -> impl universes: only the panic (C12) findings are reported here
    path, acc = mc_syntax(run, "tokens", 4, 1, "mc_tokens")
    summary, mism = run_harness(["replay-tokens", path, "4"])
    run.impl_traces += summary["sequences"]
    run.evaluations += 2 * summary["sequences"]
    report_syntax_mismatches(run, mism, {"C12"}, "tokens")
    path, toks = mc_syntax(run, "chars", 3, 1, "mc_chars")
    s2, mism2 = run_harness(["replay-chars", path])
    run.impl_traces += s2["strings"]
    run.evaluations += s2["strings"]
    report_syntax_mismatches(run, mism2, {"C12"}, "chars")
    run.extra["s2i"] = {"token_sequences": summary["sequences"], "piece_strings": s2["strings"], "panics": summary["panics"] + s2["panics"]}
    # "evaluation of formulas whose fixed points converge": well-formed formulas with monotone (hence convergent) fixed
    # points, nested ones included, are evaluated in-process (twice) and through the binary; a panic is a violation here
    # (Binders = 1: quantified one-step wrappers, among them counting comparisons against constants beyond every list length,
    # rendered as 10^6, 2^32, 2^63 - 1, 2^63, 2^64 - 1)
    for binders, ck in ((1, 5 if not t else 1), (2, 2 if not t else 1), (3, 8 if not t else 2)):
        pn, cn = mc_nest(run, binders, ck)
        replay_lang(run, pn, "nested_%d_binders" % binders, {"C12"})
    sconv = checks_lang_trace.record_formulas(run, 6000 if t else 900, {"C12"}, label="convergent")
    trc = os.path.join(WORK, run.prop, "rec_convergent", "trace.ndjson")
    texts = []
    if os.path.exists(trc):
        for ln in open(trc):
            r0 = json.loads(ln)
            if r0.get("text") and ("#" in r0["text"]):
                texts.append(r0["text"])
    rndc = random_for("c12conv")
    rndc.shuffle(texts)

    def run_conv(text):
        opts = ["-t"] + (["-m"] if rndc.random() < 0.3 else []) + (["-v"] if rndc.random() < 0.3 else [])
        rc, out = checks_cli.run_rsbdd(["--evaluate=" + text] + opts, None, timeout=120)
        return text, opts, rc

    from concurrent.futures import ThreadPoolExecutor as _TPE
    build_repo_bins()
    with _TPE(max_workers=NCPU) as ex:
        conv_results = list(ex.map(run_conv, texts[: (600 if t else 150)]))
    for text, opts, rc in conv_results:
        if rc == 101 or rc < 0 and rc != -999 or rc >= 128:
            run.violation("panic:binary:convergent formula:exit%s" % rc, "rsbdd --evaluate=%r %s ended with status %s" % (text[:200], " ".join(opts), rc),
                          {"mode": "formula-text", "text": text, "tag": "panic"})
    run.impl_traces += len(conv_results)
    run.evaluations += len(conv_results)
    # byte-level inputs in-process
    d = fresh_dir(run.prop, "fuzz")
    tr = os.path.join(d, "trace.ndjson")
    indir = os.path.join(d, "inputs")
    keep = 1200 if t else 250
    fs, _ = run_harness(["fuzz", tr, str(60000 if t else 6000), indir, str(keep)], timeout=3000)
    run.extra["i2s"] = {"in_process": fs}
    acc, rej, lines = checks_lang_trace.validate_lang_trace(run, tr, "bytes", set())
    for i in rej:
        rec = json.loads(lines[i])
        run.violation("panic:%s:%s" % (rec.get("as", "?"), (rec.get("panic") or "")[:60]),
                      "panic on input (as %s): %s -- bytes %s" % (rec.get("as"), rec.get("panic"), rec.get("hex", "")[:200]),
                      {"mode": "bytes", "hex": rec.get("full_hex", rec.get("hex")), "as": rec.get("as")})
    run.sample({"direction": "impl->spec", "record": json.loads(lines[5])})
    # through the binary: exit status 0 (Ok) or 1 (Err); 101 / signals are panics / aborts
    build_repo_bins()
    kept = [json.loads(l) for l in lines[:keep]]
    rnd = random_for("c12")
    jobs = []
    for i, rec in enumerate(kept):
        if rec.get("k") != "bytes":
            continue
        f = os.path.join(indir, "in%d.bin" % i)
        opts = []
        for o, pr in (("-t", .7), ("-v", .3), ("-m", .25), ("-r", .3)):
            if rnd.random() < pr:
                opts.append(o)
        if rnd.random() < .4:
            opts += ["-f", rnd.choice(["t", "f", "a", "True", "0", "*"])]
        if rnd.random() < .25:
            opts += ["-c", rnd.choice(["t", "f", "a"])]
        if rnd.random() < .2:
            opts += ["-b", str(rnd.choice([1, 2]))]
        if rnd.random() < .3:
            opts += ["-d", os.path.join(d, "o%d.dot" % i)]
        if rnd.random() < .3:
            opts += ["-p", os.path.join(d, "o%d.ptree" % i)]
        if rec["formula"] != "ok":          # parse error or safely evaluable
            jobs.append((["%s" % f] + opts, None, i, "formula file"))
            if rnd.random() < .3:
                jobs.append((opts, f, i, "formula on stdin"))
        jobs.append((["--evaluate=a & b | zz", "-o", f] + opts, None, i, "ordering file"))

    def one(job):
        args, stdin_file, i, how = job
        data = open(stdin_file, "rb").read() if stdin_file else None
        rc, out = checks_cli.run_rsbdd(args, data, timeout=60)
        return job, rc

    from concurrent.futures import ThreadPoolExecutor
    with ThreadPoolExecutor(max_workers=NCPU) as ex:
        results = list(ex.map(one, jobs))
    bad = 0
    timeouts = 0
    for (args, stdin_file, i, how), rc in results:
        if rc == -999:
            timeouts += 1
        elif rc == 101 or rc < 0 or rc >= 128:      # a panic or a signal; any other status is an ordinary error exit
            bad += 1
            run.violation("panic:binary:%s:exit%s" % (how, rc), "rsbdd %s (%s, input in%d.bin) ended with status %s" % (" ".join(args), how, i, rc),
                          {"mode": "bytes", "hex": open(os.path.join(indir, "in%d.bin" % i), "rb").read().hex(), "as": how, "argv_opts": [a for a in args if not a.startswith("/")]})
    run.impl_traces += len(results) - bad
    run.evaluations += len(results)
    run.extra["i2s"]["binary"] = {"runs": len(results), "abnormal": bad, "timeouts_ignored": timeouts}
    run.nontrivial = fs["rejected"] + fs["invalid_utf8"]
    run.assumptions += ["inputs whose evaluation is exponential by design (counting lists > 10 operands) or may not terminate (unknown fixed points) are parsed but not evaluated",
                        "for bytes outside the modelled alphabet the specification contributes only the Ok/Err totality of every pipeline action"]


def random_for(tag):
    import random
    return random.Random(seed() * 104729 + sum(map(ord, tag)))


def replay_bytes(prop, rp):
    d = fresh_dir(prop, "replay")
    f = os.path.join(d, "input.bin")
    with open(f, "wb") as fh:
        fh.write(bytes.fromhex(rp["hex"].rstrip(".")))
    summary, mism = run_harness(["probe-files", f])
    for m in mism:
        log("probe: %s" % json.dumps(m)[:500])
    ok = summary["panics"] == 0
    import checks_cli
    build_repo_bins()
    for args in (["%s" % f, "-t"], ["--evaluate=a & b | zz", "-o", f, "-t"]):
        rc, out = checks_cli.run_rsbdd(args + rp.get("argv_opts", []), None, timeout=60)
        log("rsbdd %s -> %s" % (args, rc))
        if rc != -999 and (rc == 101 or rc < 0 or rc >= 128):
            ok = False
    return ok


CHECKS.update({"C12": c12})
REPLAYS.update({"bytes": replay_bytes})
