"""C13 (environment history) and C02 (canonical form): Env.tla against BDDEnv."""
import json
import os

from vlib import *
import checks_bdd

ENV_INVS = ("TypeOK", "I_Leaves", "I_Unique", "I_WF", "I_Canon", "I_Closed", "I_HistoryFree")
ENV_ACTIONS = ["OpNot", "OpBin", "OpIte", "OpExists", "OpAll", "OpCount", "OpCountList", "OpModel",
               "OpRetain", "OpClean", "OpFp", "OpDrop"]


def mc_env(run, nv, maxh, countmax, name, timeout=3000, listmax=2):
    """Exhaustive: every reachable set of handles of the environment machine, all invariants."""
    d = fresh_dir(run.prop, name)
    c = cfg({"NV": nv, "MaxHandles": maxh, "CountMax": countmax, "ListMax": listmax}, invariants=ENV_INVS,
            extra="CONSTANT Pick <- PickAll\nPROPERTY A_AppendOnly\nPROPERTY A_HistoryFree\nVIEW StructView\nCONSTRAINT HandleBound")
    res = run_tlc("MC_Env", c, d, timeout=timeout)
    run.add_tlc(name, res, require_actions=ENV_ACTIONS)
    run.spec_must_hold(name, res)
    return res


def gen_behaviours(run, nv, depth, num, name):
    """TLC -simulate on Gen_Env: random behaviours of Env.tla with expected structures."""
    d = fresh_dir(run.prop, name)
    c = cfg({"NV": nv, "MaxHandles": 1000, "CountMax": 3, "ListMax": 2, "Depth": depth}, spec="GSpec",
            invariants=("I_Unique", "I_HistoryFree", "I_Leaves"), extra="CONSTANT Pick <- PickRand")
    workers = 4
    res = run_tlc("Gen_Env", c, d, workers=workers, timeout=1800, simulate="num=%d" % max(1, num // workers),
                  extra=["-depth", str(depth + 4)], coverage=False)
    if res.error or res.timeout:
        raise ToolError("Gen_Env simulation failed: %s" % (res.error or "timeout"))
    behs = []
    for line in res.output.splitlines():
        if line.startswith('<<"BEH", "'):
            inner = line[len('<<"BEH", '):-2]
            behs.append(json.loads(json.loads(inner)))
    m = re.search(r"The number of states generated: (\d+)", res.output)
    gen = int(m.group(1)) if m else 0
    run.states += gen
    run.transitions += gen
    run.tlc_runs.append({"run": name, "mode": "simulate", "states_generated": gen, "behaviours": len(behs),
                         "wall_s": round(res.wall, 1)})
    if not behs:
        raise ToolError("Gen_Env produced no behaviour")
    path = os.path.join(d, "behaviours.ndjson")
    with open(path, "w") as fh:
        for b in behs:
            fh.write(json.dumps(b) + "\n")
    return path, behs


def validate_env_trace(run, trace, nv, label, shards=8):
    acc, rej, tlcs, lines = validate_trace("Trace_Env", trace, {"NV": nv}, os.path.join(run.prop, "tv_" + label),
                                           shards=shards, boundary='"k":"reset"', extra_cfg="CONSTANT NameSeq <- XS%d" % nv)
    for i, r in enumerate(tlcs):
        run.add_tlc("trace_%s_%d" % (label, i), r, require_actions=["Step"])
    run.impl_traces += acc
    for i in rej:
        rec = json.loads(lines[i])
        # the history up to the rejected event is the replay
        j = i
        while j > 0 and '"k":"reset"' not in lines[j]:
            j -= 1
        hist = [json.loads(x) for x in lines[j:i + 1]]
        why = validate_trace.reasons.get(i, "")
        calls = [({"op": h["op"], "args": h["args"], "par": h["par"]} if h.get("k") == "op" else {"op": "drop", "args": [h["h"]], "par": []})
                 for h in hist if h.get("k") in ("op", "drop")]
        run.violation("env:%s:%s:%s" % (label, rec.get("op"), why.split(":")[0]),
                      "Trace_Env rejects event %d (%s): %s" % (i, why, lines[i].strip()[:400]),
                      {"mode": "env-history", "nv": nv, "calls": calls})
    return acc, rej, lines


def s2i_env(run, nv, depth, num, label):
    path, behs = gen_behaviours(run, nv, depth, num, "gen_" + label)
    d = os.path.dirname(path)
    tr = os.path.join(d, "events.ndjson")
    summary, mism = run_harness(["replay-env", path, tr, str(nv)])
    run.evaluations += summary["steps"]
    run.extra.setdefault("s2i", {})[label] = {k: summary[k] for k in ("behaviours", "steps", "mismatches", "events", "long_lived_table_size")}
    run.sample({"direction": "spec->impl", "behaviour": summary["samples"][0][:8]})
    for m in mism:
        run.violation("env-s2i:%s:%s" % (m["mode"], m["case"]["op"]),
                      "behaviour %d step %d (%s environment): result differs from Env.tla: expected %s got %s" % (
                          m["behaviour"], m["step"], m["mode"], json.dumps(m["case"]["spec"]), json.dumps(m["got"])),
                      {"mode": "env-behaviour", "nv": nv, "behaviour": m["prefix"]})
    acc, rej, lines = validate_env_trace(run, tr, nv, label)
    run.impl_traces += 0
    return summary


def i2s_env(run, nv, histories, ops, label):
    d = fresh_dir(run.prop, "rec_" + label)
    tr = os.path.join(d, "events.ndjson")
    summary, _ = run_harness(["record-env", tr, str(nv), str(histories), str(ops)])
    run.evaluations += summary["events"]
    run.extra.setdefault("i2s", {})[label] = summary
    acc, rej, lines = validate_env_trace(run, tr, nv, label)
    run.sample({"direction": "impl->spec", "event": json.loads(lines[min(len(lines) - 1, 40)])})
    return summary


def replay_env_history(prop, rp):
    d = fresh_dir(prop, "replay")
    cin, tr = os.path.join(d, "calls.json"), os.path.join(d, "events.ndjson")
    with open(cin, "w") as fh:
        json.dump(rp["calls"], fh)
    run_harness(["exec-env", cin, tr, str(rp["nv"])])
    acc, rej, tlcs, lines = validate_trace("Trace_Env", tr, {"NV": rp["nv"]}, os.path.join(prop, "replay_tv"),
                                           shards=1, boundary='"k":"reset"', extra_cfg="CONSTANT NameSeq <- XS%d" % rp["nv"])
    for i in rej:
        log("rejected: %s -- %s" % (validate_trace.reasons.get(i), lines[i].strip()[:300]))
    return len(rej) == 0


def replay_env_behaviour(prop, rp):
    d = fresh_dir(prop, "replay")
    cin, tr = os.path.join(d, "beh.ndjson"), os.path.join(d, "events.ndjson")
    with open(cin, "w") as fh:
        fh.write(json.dumps(rp["behaviour"]) + "\n")
    summary, mism = run_harness(["replay-env", cin, tr, str(rp["nv"])])
    for m in mism:
        log("mismatch: %s" % json.dumps(m)[:600])
    return not mism


def c13(run):
    t = run.tier == "thorough"
    run.rule = ("MC_Env: every reachable set of live handles (NV=2, <=2 handles; thorough also NV=3 with 1 handle) x every operation incl. fp/model/"
                "retain/clean/drop, all invariants; TLC-simulated behaviours (NV=3) replayed in fresh and in one long-lived real "
                "environment; random 300-operation histories (NV=6) with formula evaluations validated event by event by Trace_Env; "
                "non-trivial = events after which the unique table grew")
    # (three live handles over NV = 2 do not finish within hours: the exhaustive instances are 2 handles over
    #  NV = 2 with counting lists up to 2 and, thorough only, 1 handle over NV = 3; depth comes from the simulated
    #  behaviours and the recorded histories)
    mc_env(run, 2, 2, 2, "mc_env_nv2", timeout=7200, listmax=2 if t else 1)
    if t:
        mc_env(run, 3, 1, 2, "mc_env_nv3_h1", timeout=7200, listmax=1)
    s2i_env(run, 3, 16, 4000 if t else 400, "beh_nv3")
    s = i2s_env(run, 6, 60 if t else 8, 300, "hist_nv6")
    # a few long histories over more variables: the unique table grows to thousands of nodes
    i2s_env(run, 7, 20 if t else 2, 700 if t else 500, "hist_nv7_long")
    # far beyond what Trace_Env can hold (it keeps the whole node table as a TLA+ value): thousands of calls in ONE environment
    # whose table grows to ~10^5 nodes while old results are dropped; every call is screened by the harness's truth-table
    # oracle, the flagged ones and a regular sample are validated by Trace_Bdd (result = the specification's result,
    # independent of the history)
    checks_bdd.record_and_validate(run, 7, "history", 30000 if t else 5000, "bin,not,ite,quant,model,retain", "long_history_nv7")
    checks_bdd.record_and_validate(run, 5, "history", 200000 if t else 40000, "bin,not,ite,quant", "long_history_nv5")
    run.nontrivial = s["events_where_table_grew"]
    run.assumptions += ["pointer identities are observed through Rc::as_ptr with every observed Rc kept alive",
                        "intermediate table contents are not required to match Env.tla's algorithmic model"]


def c02(run):
    t = run.tier == "thorough"
    run.rule = ("MC_Bdd C02: |AllWF(NV)| = 2^2^NV, Canon o Sat = id on AllWF and Sat o Canon = id on all sets of assignments (Sat is a bijection) for NV=3 (thorough NV=4); MC_Env I_WF/I_Canon over every "
                "reachable handle set; behaviours and random histories: every result WF, equal/hash-equal iff same function across "
                "routes and environments (Trace_Env I_Canon, harness cross-environment comparison); non-trivial = distinct functions reached")
    checks_bdd.mc_bdd(run, "C02", 4 if t else 3, timeout=7200)
    mc_env(run, 2, 2, 2, "mc_env_nv2", listmax=2 if t else 1)
    s2i_env(run, 3, 16, 4000 if t else 400, "beh_nv3")
    s = i2s_env(run, 6, 40 if t else 8, 300, "hist_nv6")
    # operands that live in ANOTHER environment (what two BDDSet::new sets or a {definition} hand to an operation): the result
    # must still be the canonical diagram of the function (Trace_Bdd: structure = specification's result, WF)
    checks_bdd.record_and_validate(run, 3, "uniform", 6000 if t else 1500, "xbin,xite,xnot,xquant,xmodel,xretain,xcc", "cross_env_nv3")
    checks_bdd.record_and_validate(run, 5, "random", 3000 if t else 600, "xbin,xite,xnot,xquant,xmodel,xretain", "cross_env_nv5")
    # through the formula language: "a valid function is literally the true leaf and an unsatisfiable one literally the false
    # leaf", every result ordered and reduced -- a sample of the quantifier / counting family of MC_Nest (Binders = 1)
    import checks_lang
    pq, cq = checks_lang.mc_nest(run, 1, 1 if t else 6)
    checks_lang.replay_lang(run, pq, "formula_results", {"C01", "C02"})
    run.nontrivial = s["max_table_size"]
    run.exhaustive = True


CHECKS = {"C13": c13, "C02": c02}
REPLAYS = {"env-history": replay_env_history, "env-behaviour": replay_env_behaviour, "exec-bdd": checks_bdd.replay_exec_bdd, "bdd-history": checks_bdd.replay_bdd_history}
