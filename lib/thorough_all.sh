#!/bin/bash
# All thorough tiers on a scratch copy of the repository:  vp run --with-repo -- bash lib/thorough_all.sh
set -u
REPO_COPY=${VP_RUN_REPO:?needs vp run --with-repo}
export VERIF_REPO=$REPO_COPY
sed -i "s#path = \"/repo\"#path = \"$REPO_COPY\"#" harness/Cargo.toml
for c in ${THOROUGH_CHECKS:-C07 C20 C19 C04 C05 C03 C13 C02 C15 C16 C17 C18 C14 C10 C11 C12 C09 C08 C01 C06}; do
  echo "=== $c"
  /usr/bin/time -f "%es %MKB" ./check $c --tier thorough 2>&1 | tail -6
done
