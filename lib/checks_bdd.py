"""C03, C04, C05, C07, C20: the node algebra (Bdd.tla) against src/bdd.rs."""
import json
import os

from vlib import *

TLC_BINOP = {"iff": "iff"}


def mc_bdd(run, which, nv, lmax=2, xv=4, emit=False, name=None, workers=None, timeout=3000):
    """Exhaustive TLC check of one theorem family of MC_Bdd; optionally writes case tables."""
    name = name or ("mc_%s_nv%d" % (which, nv))
    d = fresh_dir(run.prop, name)
    out = os.path.join(d, "tables")
    os.makedirs(out)
    res = run_tlc("MC_Bdd", cfg({"NV": nv, "Which": which, "LMax": lmax, "XV": xv, "Emit": emit}), d,
                  workers=workers, env={"OUT": out}, timeout=timeout)
    run.add_tlc(name, res, require_actions=["Eval"])
    run.spec_must_hold(name, res)
    return out, res


def node_struct(tables, i):
    return tables["nodes"][i - 1]


def case_to_call(case, nodes):
    """Turn an index-based table case into a self-contained call record (structures)."""
    n = lambda i: nodes[i - 1]
    op = case["op"]
    if op in ("and", "or", "xor", "nor", "nand", "implies", "impliesinv", "iff"):
        return {"k": "bin", "op": op, "a": n(case["a"]), "b": n(case["b"])}
    if op == "not":
        return {"k": "not", "a": n(case["a"])}
    if op == "build":
        return {"k": "not", "a": n(case["a"])}
    if op == "ite":
        return {"k": "ite", "a": n(case["a"]), "b": n(case["b"]), "c": n(case["c"])}
    if op in ("exists", "all", "exists_impl"):
        return {"k": "exists" if op != "all" else "all", "vs": case["vs"], "f": n(case["a"])}
    if op in ("aln", "amn", "exn"):
        return {"k": "cc", "kind": op, "bs": [n(i) for i in case["bs"]], "n": case["n"], "n_exact": str(case["n"])}
    if op in ("leq", "lt", "geq", "gt", "eq"):
        return {"k": "cl", "kind": op, "p": [n(i) for i in case["p"]], "q": [n(i) for i in case["q"]]}
    return {"k": "?", "case": case}


def replay_tables(run, tables_dir, nv, label):
    """spec -> impl: every case of the tables through the real BDDEnv."""
    summary, mism = run_harness(["replay-bdd", tables_dir])
    run.impl_traces += summary["cases"]
    run.evaluations += summary["cases"]
    run.extra.setdefault("s2i", {})[label] = {k: summary[k] for k in ("rows", "cases", "mismatches", "panics", "symbols")}
    for s in summary["samples"]:
        run.sample({"direction": "spec->impl", "table": label, "case": s})
    nodes = json.load(open(os.path.join(tables_dir, "nodes.json")))["nodes"]
    for m in mism:
        case = m["case"]
        call = case_to_call(case, nodes)
        run.violation("s2i:%s:%s" % (label, case.get("op")),
                      "real result differs from the specification's: case %s expected %s got %s" % (
                          json.dumps(case), json.dumps(m.get("expected")), json.dumps(m.get("got", m.get("operand_changed")))),
                      {"mode": "exec-bdd", "nv": nv + 2, "call": call})
    return summary


def record_and_validate(run, nv, mode, count, kinds, label, shards=8):
    """impl -> spec: drive the real code, validate every logged call with Trace_Bdd."""
    d = fresh_dir(run.prop, "rec_" + label)
    tr = os.path.join(d, "trace.ndjson")
    summary, _ = run_harness(["record-bdd", tr, str(nv), mode, str(count), kinds])
    acc, rej, tlcs, lines = validate_trace("Trace_Bdd", tr, {"NV": nv}, os.path.join(run.prop, "tv_" + label), shards=shards)
    for i, r in enumerate(tlcs):
        run.add_tlc("trace_%s_%d" % (label, i), r, require_actions=["Step"])
    run.impl_traces += acc
    run.evaluations += len(lines)
    run.extra.setdefault("i2s", {})[label] = {"records": len(lines), "accepted": acc, "rejected": len(rej),
                                               "kinds": summary["kinds"], "distinct_functions": summary["distinct_functions"],
                                               "panics": summary["panics"], "nv": nv}
    if "calls" in summary:
        # mode "history": one environment; the harness's truth-table oracle screens all calls, TLC validates every call it
        # flags and a regular sample
        run.extra["i2s"][label].update(calls_in_one_environment=summary["calls"], flagged_by_screen=summary["flagged_by_screen"],
                                       max_table_size=summary["max_table_size"])
    run.sample({"direction": "impl->spec", "trace": label, "record": json.loads(lines[len(lines) // 2])})
    for i in rej:
        rec = json.loads(lines[i])
        k = rec.get("k")
        sub = rec.get("op") or rec.get("kind") or rec.get("flt") or (rec.get("call", {}).get("k") if k == "panic" else "")
        run.violation("i2s:%s:%s:%s" % (label, k, sub),
                      "Trace_Bdd rejects the recorded call: " + lines[i].strip()[:600],
                      {"mode": "exec-bdd", "nv": nv, "call": rec} if mode != "history" else
                      {"mode": "bdd-history", "nv": nv, "count": count, "kinds": kinds, "label": label})
    return summary


def replay_bdd_history(prop, rp):
    """--replay for a call that went wrong late in a long history: the whole history is driven again"""
    run = Run(prop, "quick")
    record_and_validate(run, rp["nv"], "history", rp["count"], rp["kinds"], "replay_" + rp["label"])
    for key, desc, _ in run.violations[:5]:
        log("replay: %s" % desc[:400])
    return not run.violations


def replay_exec_bdd(prop, rp):
    """--replay for mode exec-bdd: re-execute the call on the current tree, validate with TLC."""
    d = fresh_dir(prop, "replay")
    cin, cout = os.path.join(d, "call.ndjson"), os.path.join(d, "trace.ndjson")
    with open(cin, "w") as fh:
        fh.write(json.dumps(rp["call"]) + "\n")
    run_harness(["exec-bdd", cin, cout, str(rp["nv"])])
    acc, rej, tlcs, lines = validate_trace("Trace_Bdd", cout, {"NV": rp["nv"]}, os.path.join(prop, "replay_tv"), shards=1)
    log("replayed record(s): " + "".join(lines)[:1500])
    return len(rej) == 0


# ---------------------------------------------------------------------------

def c03(run):
    t = run.tier == "thorough"
    run.rule = ("every operand pair of AllWF(3) x 8 connectives, not, ite on AllWF(2)^3 (thorough: AllWF(3)^3), "
                "var/const; random 6-7 variable operands; non-trivial = distinct (op, operands) with a non-constant operand")
    tables, res = mc_bdd(run, "C03", 3, emit=True)
    s = replay_tables(run, tables, 3, "bin_nv3")
    nontriv = s["cases"]
    tables, res = mc_bdd(run, "C03ite", 3 if t else 2, emit=True, timeout=7200)
    s2 = replay_tables(run, tables, 3 if t else 2, "ite")
    nontriv += s2["cases"]
    rs = record_and_validate(run, 7 if t else 6, "random", 6000 if t else 700, "bin,not,ite", "rand")
    # beyond the exhaustive bound: random operands over 4 and 5 variables (symbols far apart)
    record_and_validate(run, 4, "random", 12000 if t else 1500, "bin,not,ite", "rand_nv4")
    record_and_validate(run, 5, "random", 8000 if t else 1000, "bin,ite", "rand_nv5")
    # one variable beyond the exhaustive bound, densely: uniformly random operand pairs over 4 variables
    # (defects that need 4 variables were seen to affect as few as 1 in 10^5 pairs)
    record_and_validate(run, 4, "uniform", 2000000 if t else 400000, "bin", "uniform_nv4", shards=16)
    record_and_validate(run, 5, "uniform", 600000 if t else 100000, "bin", "uniform_nv5", shards=16)
    if t:
        record_and_validate(run, 4, "allwf", 0, "not", "not_nv4", shards=16)
    run.nontrivial = nontriv - 2 * 256 - 16  # minus cases with a constant first operand (counted by rows)
    run.exhaustive = True
    run.assumptions += ["operands are built in the real environment bottom-up with mk_choice",
                        "1..NV injected order-preservingly into non-adjacent usize symbols"]


def c04(run):
    t = run.tier == "thorough"
    run.rule = ("f in AllWF(3) x every variable list of length <= 3 over 1..4 (4 = unmentioned variable), exists and all; "
                "random 6-7 variable f with random lists (repeats, foreign variables); non-trivial = list meets f's support")
    tables, res = mc_bdd(run, "C04", 3, xv=4, emit=True)
    s = replay_tables(run, tables, 3, "quant_nv3")
    if t:
        mc_bdd(run, "C04", 4, xv=4, emit=False, timeout=7200)
    rs = record_and_validate(run, 7 if t else 6, "random", 6000 if t else 800, "quant", "rand")
    record_and_validate(run, 4, "random", 12000 if t else 2000, "quant", "rand_nv4")
    record_and_validate(run, 5, "random", 8000 if t else 1200, "quant", "rand_nv5")
    # the quantifiers of the formula language (variable lists as the parser hands them to exists / all): MC_Nest, Binders = 1 --
    # `Q vs # w` for every one-step wrapper w of a variable (the quantified name in every operand position of every node kind) and
    # every list shape; TLC checks Ev = Canon(Sem), the real solver is replayed (quick: a third of the family)
    import checks_lang
    pq, cq = checks_lang.mc_nest(run, 1, 1 if t else 3)
    checks_lang.replay_lang(run, pq, "quantifier_formulas", {"C01", "C09"})
    run.nontrivial = s["cases"] // 2
    run.exhaustive = True


def c05(run):
    t = run.tier == "thorough"
    lm = 3
    run.rule = ("lists of length 0..%d over AllWF(2) x n in -2..len+2 x {aln,amn,exn}; pairs of lists (length <= 2) x 5 "
                "comparisons; random lists of 6-variable operands with extreme bounds; non-trivial = list length >= 1" % lm)
    tables, res = mc_bdd(run, "C05c", 2, lmax=lm, emit=True)
    s = replay_tables(run, tables, 2, "count_const")
    tables, res = mc_bdd(run, "C05l", 2, lmax=2, emit=True)
    s2 = replay_tables(run, tables, 2, "count_list")
    if t:
        mc_bdd(run, "C05c", 3, lmax=2, emit=False, name="mc_C05c_nv3", timeout=7200)
    record_and_validate(run, 6, "random", 4000 if t else 500, "cc,cl", "rand")
    record_and_validate(run, 3, "random", 6000 if t else 1200, "cc,cl", "rand_nv3")
    # longer lists (up to 8 operands against a constant, 5 + 5 list-vs-list) over 4 variables
    record_and_validate(run, 4, "random", 5000 if t else 800, "ccl", "long_lists_nv4")
    # the formula language's counting forms ([..] = / <= / >= / < / > constant or list; constants beyond every
    # list length): the builder formulas of MC_Lang that contain a counting node, evaluated by the real solver
    import checks_lang
    path, cases = checks_lang.lang_cases(run, t)
    counting = [c for c in cases if '"cc"' in json.dumps(c["t"]) or '"cv"' in json.dumps(c["t"])]
    cpath = os.path.join(os.path.dirname(path), "counting_cases.ndjson")
    with open(cpath, "w") as fh:
        for c in counting:
            fh.write(json.dumps(c) + "\n")
    checks_lang.replay_lang(run, cpath, "counting_formulas", {"C01"})
    run.nontrivial = s["cases"] + s2["cases"] - 16 - 21
    run.exhaustive = True
    run.assumptions += ["bounds beyond +-1000 are clamped for TLC's 32-bit integers (sound: every list is shorter)"]


def c07(run):
    t = run.tier == "thorough"
    run.rule = ("model/infer for every f in AllWF(4) (65 536 functions) and random 6-7 variable f; "
                "ModelOK/InferOK predicates; non-trivial = satisfiable non-constant f")
    mc_bdd(run, "C07", 4)
    s = record_and_validate(run, 4, "allwf", 0, "model", "allwf", shards=16)
    record_and_validate(run, 7 if t else 6, "random", 5000 if t else 600, "model", "rand")
    # diagrams that live in another environment (conversions, {definitions}, a second BDDEnv)
    record_and_validate(run, 4, "uniform", 4000 if t else 1200, "xmodel", "foreign_nv4")
    # a long history of model() calls in ONE environment (hundreds of thousands of distinct nodes pass through it)
    record_and_validate(run, 5, "history", 300000, "model", "history_nv5")
    if t:
        record_and_validate(run, 6, "history", 600000, "model", "history_nv6")
        record_and_validate(run, 7, "history", 150000, "model", "history_nv7")
    import checks_cli
    checks_cli.cli_model_retain(run, "model")
    run.nontrivial = s["distinct_functions"] - 2
    run.exhaustive = True


def c20(run):
    t = run.tier == "thorough"
    run.rule = ("retain_choice_bottom_up for every f in AllWF(4) (65 536 functions) x {True,False,Any} and random "
                "6-7 variable f; RetainOK predicate; non-trivial = non-constant f")
    mc_bdd(run, "C20", 4)
    s = record_and_validate(run, 4, "allwf", 0, "retain", "allwf", shards=16)
    record_and_validate(run, 7 if t else 6, "random", 5000 if t else 600, "retain", "rand")
    record_and_validate(run, 4, "uniform", 4000 if t else 1200, "xretain", "foreign_nv4")
    import checks_cli
    checks_cli.cli_model_retain(run, "retain")
    run.nontrivial = s["distinct_functions"] - 2
    run.exhaustive = True


CHECKS = {"C03": c03, "C04": c04, "C05": c05, "C07": c07, "C20": c20}
REPLAYS = {"exec-bdd": replay_exec_bdd, "bdd-history": replay_bdd_history}
