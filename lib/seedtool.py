#!/usr/bin/env python3
"""seedtool.py verify <ID> [check ids...]
Confirms a seeded change produced by a sub-agent (in /tmp/seeded_out/<ID>/) in its scratch worktree /tmp/wt/<ID>:
  patch applies to a clean checkout, workspace compiles, the existing tests pass WITH the patch,
  the demonstration fails WITH the patch and passes WITHOUT it.
Then applies the patch to /repo, runs the given checks (default: the owning check, quick tier), undoes it,
and stores everything under /verif/seeded/<ID>/ (patch.diff, demo, notes.md, meta.json)."""
import json
import os
import shutil
import subprocess
import sys
import time

ID = sys.argv[2]
PROP = ID[:3]                       # C01b -> property C01 (second independent change for the same property)
checks = sys.argv[3:] or [PROP]
rnd = {"": "", "b": "2", "c": "4", "d": "5", "e": "6", "f": "7", "g": "8", "n": "n"}[ID[3:]]      # Cxxb rounds 2/3, Cxxc round 4, Cxxn property-preserving variations
src = "/tmp/seeded_out%s/%s" % (rnd, ID)
wt = "/tmp/wt%s/%s" % (rnd, ID)
if not os.path.exists(src) and rnd == "8":      # second half of round 8
    src, wt = "/tmp/seeded_out9/%s" % ID, "/tmp/wt9/%s" % ID
dst = "/verif/seeded/%s" % ID


def sh(cmd, cwd=None, timeout=3600):
    p = subprocess.run(cmd, shell=True, cwd=cwd, stdout=subprocess.PIPE, stderr=subprocess.STDOUT, text=True, timeout=timeout)
    return p.returncode, p.stdout


meta = {"property": PROP, "seed": ID, "ran": []}
patch = os.path.join(src, "patch.diff")
demo_rs = os.path.join(src, "demo_test.rs")
demo_sh = os.path.join(src, "demo.sh")
sh("git checkout -- . && git clean -fdq -e target", cwd=wt)
rc, out = sh("git apply --check %s && git apply %s" % (patch, patch), cwd=wt)
meta["patch_applies"] = rc == 0
rc, out = sh("cargo test --workspace --no-fail-fast --offline 2>&1 | grep -E '^test result|FAILED|error' ", cwd=wt)
passed = sum(int(l.split(" passed")[0].split()[-1]) for l in out.splitlines() if l.startswith("test result"))
failed = sum(int(l.split(" failed")[0].split()[-1]) for l in out.splitlines() if l.startswith("test result"))
meta["existing_tests_with_patch"] = {"passed": passed, "failed": failed}
meta["ran"].append("cargo test --workspace --no-fail-fast --offline (with patch): %d passed, %d failed" % (passed, failed))


def run_demo():
    if os.path.exists(demo_rs):
        shutil.copy(demo_rs, os.path.join(wt, "tests", "zz_seed_demo.rs"))
        rc, out = sh("timeout 900 cargo test --offline --test zz_seed_demo 2>&1 | tail -5", cwd=wt)
        ok = "test result: ok" in out
        os.remove(os.path.join(wt, "tests", "zz_seed_demo.rs"))
        return ok, out[-300:]
    rc, out = sh("timeout 1800 bash %s %s 2>&1" % (demo_sh, wt), cwd=wt)
    return rc == 0, out[-300:]


ok_with, o1 = run_demo()
sh("git apply -R %s" % patch, cwd=wt)
ok_without, o2 = run_demo()
meta["demo_passes_with_patch"] = ok_with
meta["demo_passes_without_patch"] = ok_without
meta["ran"].append("demo with patch: %s; without patch: %s" % ("PASS" if ok_with else "FAIL", "PASS" if ok_without else "FAIL"))
valid = meta["patch_applies"] and failed == 0 and passed >= 31 and (not ok_with) and ok_without
meta["confirmed"] = valid
print(json.dumps(meta, indent=1))
if not valid:
    print("NOT CONFIRMED", o1, o2)
    sys.exit(1)
# run the checks against /repo with the patch
rc, out = sh("git -C /repo status --short")
assert out.strip() == "", "/repo is dirty"
rc, out = sh("git -C /repo apply %s" % patch)
assert rc == 0, out
results = {}
try:
    for c in checks:
        t = time.time()
        rc, out = sh("./check %s --tier quick 2>&1 | tail -4" % c, cwd="/verif", timeout=7200)
        lines = [l for l in out.splitlines() if "violation:" in l or l.startswith("[")]
        results[c] = {"exit_is_violation": "VIOLATION" in out or "violations=0" not in out, "tail": lines[-2:], "wall_s": round(time.time() - t)}
finally:
    sh("git -C /repo checkout -- .")
meta["checks_against_patch"] = results
os.makedirs(dst, exist_ok=True)
shutil.copy(patch, dst)
for f in (demo_rs, demo_sh, os.path.join(src, "notes.md")):
    if os.path.exists(f):
        shutil.copy(f, dst)
json.dump(meta, open(os.path.join(dst, "meta.json"), "w"), indent=1)
print(json.dumps(results, indent=1))
