#!/bin/bash
# Every seeded change against its owning check (quick tier) on a scratch copy of the repository (never /repo):
#   vp run --with-repo -- bash lib/owners.sh            (SEEDS="C01 C01b .." to restrict)
# Output: work/owners.tsv  (seed, check, exit status, VIOLATION lines, first violation)
set -u
REPO_COPY=${VP_RUN_REPO:?needs vp run --with-repo}
export VERIF_REPO=$REPO_COPY
sed -i "s#path = \"/repo\"#path = \"$REPO_COPY\"#" harness/Cargo.toml
mkdir -p work
: > work/owners.tsv
for dir in ${SEEDS:-$(ls seeded | grep -E '^C[0-9]{2}[a-z]?$')}; do
  c=${dir:0:3}
  git -C "$REPO_COPY" checkout -q -- .
  git -C "$REPO_COPY" apply "$PWD/seeded/$dir/patch.diff" || { echo "$dir patch failed"; continue; }
  timeout 3600 ./check $c --tier quick > work/o_$dir.log 2>&1
  rc=$?
  printf "%s\t%s\t%s\t%s\t%s\n" "$dir" "$c" "$rc" "$(grep -c '^VIOLATION' work/o_$dir.log)" "$(grep -m1 'violation:' work/o_$dir.log | cut -c1-160)" >> work/owners.tsv
  git -C "$REPO_COPY" checkout -q -- .
done
cat work/owners.tsv
