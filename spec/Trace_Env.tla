----------------------------- MODULE Trace_Env -----------------------------
(***************************************************************************)
(* impl -> spec: validates event traces recorded from a real BDDEnv        *)
(* against the environment machine of Env.tla.                             *)
(*                                                                         *)
(* The harness gives every Rc allocation it ever sees an id (in order of   *)
(* first sight, children first; all observed Rcs are kept alive so that an *)
(* address is never reused).  Per public call it logs: the operand handles *)
(* (indices into the list of earlier results), the parameters, the id of   *)
(* the result, the rows <<id, v, hi, lo>> / <<id, leaf>> of all ids seen   *)
(* for the first time (result graph and table scan), the ids that entered /*)
(* left the unique table, and the structure the same call returns in a     *)
(* FRESH environment.                                                       *)
(*                                                                         *)
(* The trace action extends the abstract state by the logged delta -- it   *)
(* deliberately does not require the intermediate table contents to match  *)
(* the algorithmic model of Env.tla (a correct refactoring may intern      *)
(* other intermediates) -- and then requires Env's invariants and action   *)
(* properties: I_Leaves, I_Unique, I_WF, I_Canon, I_Closed, append-only,   *)
(* history-freedom, and (where the operation has a functional meaning) the *)
(* denotational result of Bdd.tla.                                         *)
(*                                                                         *)
(* "drop" events: the client forgets a result (the harness pins nodes only  *)
(* weakly, so a node can die when the table lets go of it).  `live` are    *)
(* the results still held; table entries may disappear (`gone`) only if no *)
(* live result reaches them and never the leaves; size() must equal the    *)
(* number of distinct table values; formula evaluations sharing the        *)
(* environment must denote Lang!SemC of their parse tree.                  *)
(*                                                                         *)
(* Several histories are concatenated with "reset" events.  A rejected     *)
(* event is reported and the rest of that history is skipped (its abstract *)
(* state is no longer trustworthy); validation resumes at the next reset.  *)
(***************************************************************************)
EXTENDS Lang, TLC, Json, IOUtils

\* formula events name the variables x1..xNV (NameSeq <- XSn in the cfg)
XS2 == <<"x1", "x2">>
XS3 == <<"x1", "x2", "x3">>
XS4 == <<"x1", "x2", "x3", "x4">>
XS5 == <<"x1", "x2", "x3", "x4", "x5">>
XS6 == <<"x1", "x2", "x3", "x4", "x5", "x6">>
XS7 == <<"x1", "x2", "x3", "x4", "x5", "x6", "x7">>

Rec == ndJsonDeserialize(IOEnv.TRACE)

VARIABLES l,        \* next record
          heap,     \* sequence id |-> row (<<b>> or <<v, hi, lo>>)
          uniq,     \* ids that are values of the unique table
          handles,  \* sequence of result ids, in call order
          sats,     \* sequence: Sat of each handle (for canonicity across all results)
          live,     \* indices of the results the client still holds ("drop" events remove them)
          gone,     \* ids whose table entry was removed while no live result reached them
          dead      \* a record of the current history was rejected
vars == <<l, heap, uniq, handles, sats, live, gone, dead>>

RECURSIVE Struct(_, _)
Struct(h, i) ==
    LET n == h[i] IN IF Len(n) = 1 THEN n ELSE <<n[1], Struct(h, n[2]), Struct(h, n[3])>>

RECURSIVE Reach(_, _)
Reach(h, i) ==
    LET n == h[i] IN IF Len(n) = 1 THEN {i} ELSE {i} \cup Reach(h, n[2]) \cup Reach(h, n[3])

RowOf(r) == IF Len(r) = 2 THEN <<r[2]>> ELSE <<r[2], r[3], r[4]>>

\* rows must introduce consecutive fresh ids, children first
RowsFit(h, rows) ==
    \A k \in DOMAIN rows :
        LET r == rows[k] IN
        /\ r[1] = Len(h) + k
        /\ Len(r) \in {2, 4}
        /\ Len(r) = 2 => r[2] \in {0, 1}
        /\ Len(r) = 4 => r[3] \in 1..(r[1] - 1) /\ r[4] \in 1..(r[1] - 1) /\ r[2] \in Vars

Extend(h, rows) == h \o [k \in DOMAIN rows |-> RowOf(rows[k])]

\* I_WF for the new rows: reduced and ordered w.r.t. the children
NewRowsWF(h2, from) ==
    \A i \in (from + 1)..Len(h2) :
        LET n == h2[i] IN
        Len(n) = 3 =>
            /\ n[2] # n[3]
            /\ \A c \in {n[2], n[3]} : Len(h2[c]) = 3 => h2[c][1] > n[1]

\* I_Unique: no new row duplicates the row of any node that is still in the environment
NewRowsUniqueG(h2, from, g) ==
    LET old == {h2[i] : i \in (1..from) \ g} IN
    /\ \A i \in (from + 1)..Len(h2) : h2[i] \notin old
    /\ \A i \in (from + 1)..Len(h2) : \A j \in (from + 1)..Len(h2) : h2[i] = h2[j] => i = j
NewRowsUnique(h2, from) ==
    LET old == {h2[i] : i \in 1..from} IN
    /\ \A i \in (from + 1)..Len(h2) : h2[i] \notin old
    /\ \A i \in (from + 1)..Len(h2) : \A j \in (from + 1)..Len(h2) : h2[i] = h2[j] => i = j

LeavesOK(h2, u2) ==
    /\ \E i \in u2 : h2[i] = F
    /\ \E i \in u2 : h2[i] = T

StructSeq(h, q) == [i \in DOMAIN q |-> Struct(h, q[i])]

\* denotational meaning of the operations that have one; TRUE for the others
SemOK(r, res, A) ==
    LET Sres == Sat(res) IN
    CASE r.op \in BinOps -> Sres = {s \in Asg : BinSem(r.op, Den(A[1], s), Den(A[2], s))}
      [] r.op = "not"    -> Sres = Asg \ Sat(A[1])
      [] r.op = "ite"    -> Sres = {s \in Asg : IF Den(A[1], s) THEN Den(A[2], s) ELSE Den(A[3], s)}
      [] r.op = "var"    -> Sres = {s \in Asg : s[r.par[1]]}
      [] r.op = "const"  -> res = Const(r.par[1])
      [] r.op = "exists" -> Sres = ExistsSem(SeqRange(r.par) \cap Vars, Sat(A[1]))
      [] r.op = "all"    -> Sres = ForallSem(SeqRange(r.par) \cap Vars, Sat(A[1]))
      [] r.op \in {"aln", "amn", "exn"} ->
            Sres = {s \in Asg : CmpSem(r.op, CountTrue(A, s), r.par[1])}
      [] r.op \in {"leq", "lt", "geq", "gt", "eq"} ->
            LET p == SubSeq(A, 1, r.par[1])
                q == SubSeq(A, r.par[1] + 1, Len(A))
            IN Sres = {s \in Asg : CmpListSem(r.op, CountTrue(p, s), CountTrue(q, s))}
      [] r.op = "model"  -> ModelOK(A[1], res)
      [] r.op = "retain" -> RetainOK(A[1], r.par[1], res)
      [] r.op = "clean"  -> res = A[1]
      [] r.op = "fp"     -> \* transformers x |-> x op c : the fixed point is a op c
            Sres = {s \in Asg : BinSem(r.par[1], Den(A[1], s), Den(A[2], s))}
      [] r.op = "formula" -> \* a formula evaluated in the shared environment: its documented meaning
            LET m == SemC(r.ast, <<>>) IN m.ok /\ Sres = ToIdxSet(m.s)
      [] OTHER -> TRUE

Init ==
    /\ l = 1 /\ heap = <<>> /\ uniq = {} /\ handles = <<>> /\ sats = <<>> /\ live = {} /\ gone = {} /\ dead = FALSE

Reject(why) == PrintT("REJECT|" \o ToString(l) \o "|" \o why)

DoReset(r) ==
    IF RowsFit(<<>>, r.rows)
    THEN LET h2 == Extend(<<>>, r.rows)
             u2 == SeqRange(r.uadd)
         IN IF LeavesOK(h2, u2) /\ NewRowsUnique(h2, 0)
            THEN /\ heap' = h2 /\ uniq' = u2 /\ handles' = <<>> /\ sats' = <<>> /\ live' = {} /\ gone' = {} /\ dead' = FALSE
            ELSE /\ Reject("reset: leaves missing") /\ dead' = TRUE
                 /\ heap' = <<>> /\ uniq' = {} /\ handles' = <<>> /\ sats' = <<>> /\ live' = {} /\ gone' = {}
    ELSE /\ Reject("reset: rows malformed") /\ dead' = TRUE
         /\ heap' = <<>> /\ uniq' = {} /\ handles' = <<>> /\ sats' = <<>> /\ live' = {} /\ gone' = {}

\* the first failed requirement of an "op" event, "" if it is accepted
Verdict(r) ==
    IF "panic" \in DOMAIN r THEN "panic"
    ELSE IF ~RowsFit(heap, r.rows) THEN "rows malformed / id redefined"
    ELSE LET h2   == Extend(heap, r.rows)
             from == Len(heap)
             u2   == (uniq \cup SeqRange(r.uadd)) \ SeqRange(r.udel)
         IN IF ~(r.res \in 1..Len(h2)) THEN "result id unknown"
            ELSE IF ~NewRowsWF(h2, from) THEN "I_WF: node not ordered/reduced"
            ELSE IF ~NewRowsUniqueG(h2, from, gone) THEN "I_Unique: structure exists twice"
            ELSE IF ~LeavesOK(h2, u2) THEN "I_Leaves: leaf missing from table"
            ELSE IF ~r.keyok THEN "table key differs from its value"
            ELSE IF r.size # Cardinality(u2) THEN "size() differs from the number of distinct table values"
            ELSE IF ~r.stable THEN "A_AppendOnly: an earlier node changed"
            ELSE IF ~(Reach(h2, r.res) \subseteq u2) THEN "I_Closed: result node not in table"
            ELSE IF r.udel # <<>> /\ ~(\A k \in live : Reach(h2, handles[k]) \subseteq u2)
                 THEN "I_Closed: table entry of a live diagram removed"
            ELSE LET res == Struct(h2, r.res)
                     A   == [k \in DOMAIN r.args |-> Struct(h2, handles[r.args[k]])]
                 IN IF ~WF(res) THEN "I_WF: result"
                    ELSE IF res # r.fresh THEN "A_HistoryFree: differs from fresh environment"
                    ELSE IF ~SemOK(r, res, A) THEN "result does not denote the operation"
                    ELSE LET sr == Sat(res) IN
                         IF \E k \in live : (sats[k] = sr) # (handles[k] = r.res)
                         THEN "I_Canon: equal function <=> same node violated"
                         ELSE ""

DoOp(r) ==
    LET v == Verdict(r) IN
    IF v = ""
    THEN LET h2 == Extend(heap, r.rows) IN
         /\ heap' = h2
         /\ uniq' = (uniq \cup SeqRange(r.uadd)) \ SeqRange(r.udel)
         /\ handles' = Append(handles, r.res)
         /\ sats' = Append(sats, Sat(Struct(h2, r.res)))
         /\ live' = live \cup {Len(handles) + 1}
         /\ gone' = gone \cup SeqRange(r.udel)
         /\ dead' = FALSE
    ELSE /\ Reject(v) /\ dead' = TRUE /\ UNCHANGED <<heap, uniq, handles, sats, live, gone>>

\* the client forgets a result; the environment itself is unchanged
DoDrop(r) ==
    IF r.h \in live
    THEN live' = live \ {r.h} /\ UNCHANGED <<heap, uniq, handles, sats, gone, dead>>
    ELSE Reject("drop of a result that is not held") /\ dead' = TRUE /\ UNCHANGED <<heap, uniq, handles, sats, live, gone>>

Step ==
    /\ l <= Len(Rec)
    /\ l' = l + 1
    /\ LET r == Rec[l] IN
       IF r.k = "reset" THEN DoReset(r)
       ELSE IF dead THEN UNCHANGED <<heap, uniq, handles, sats, live, gone, dead>>
       ELSE IF r.k = "drop" THEN DoDrop(r)
       ELSE DoOp(r)

Next == Step
Spec == Init /\ [][Next]_vars

Consumed ==
    \/ TLCGet("stats").diameter - 1 = Len(Rec)
    \/ (PrintT(<<"INCOMPLETE", TLCGet("stats").diameter>>) /\ FALSE)
=============================================================================
