----------------------------- MODULE MC_Models -----------------------------
(***************************************************************************)
(* Exact model-set equality between the formula a generator emitted (its   *)
(* tree as parsed by the real parser, variables indexed) and the puzzle's  *)
(* mathematical solutions (Puzzles.tla).                                   *)
(*                                                                         *)
(* models \subseteq solutions: a search machine over partial assignments   *)
(*   (prefixes of the variable order) with three-valued pruning; TLC       *)
(*   enumerates every model as a terminal state and invariant Sound        *)
(*   requires it to be a solution.                                         *)
(* solutions \subseteq models: ASSUME Complete evaluates the tree under    *)
(*   every solution enumerated by the reference definition.                *)
(* S3 agrees with EvalFull on total assignments (invariant Lemma).         *)
(***************************************************************************)
EXTENDS Puzzles, TLC, Json, IOUtils

R == ndJsonDeserialize(IOEnv.TRACE)[1]
N == Len(R.names)

VARIABLE prefix
vars == <<prefix>>

QueensNames == \A k \in 0..(R.n * R.n - 1) : R.names[k + 1] = "v_" \o ToString(k)
SudokuNames ==
    \A c \in 0..(Sq(R.r) * Sq(R.r) - 1) : \A dgt \in 1..Sq(R.r) :
        R.names[c * Sq(R.r) + dgt] = "_" \o ToString(c) \o "_is_" \o ToString(dgt)

NamesOK ==
    IF R.kind = "queens" THEN N = R.n * R.n /\ QueensNames
    ELSE N = Sq(R.r) * Sq(R.r) * Sq(R.r) /\ SudokuNames

Solutions ==
    IF R.kind = "queens" THEN {CellsAsg(S, N) : S \in QueensSolutions(R.n)}
    ELSE {GridAsg(g, R.r) : g \in SudokuSolutions(R.r, R.hints)}

IsSolution(a) ==
    IF R.kind = "queens" THEN IsQueens({i - 1 : i \in {j \in 1..N : a[j]}}, R.n)
    ELSE \* exactly one digit per cell and the grid is a sudoku keeping the hints
         /\ \A c \in 0..(Sq(R.r) * Sq(R.r) - 1) : Cardinality({dgt \in 1..Sq(R.r) : a[c * Sq(R.r) + dgt]}) = 1
         /\ IsSudoku([c \in 1..(Sq(R.r) * Sq(R.r)) |-> CHOOSE dgt \in 1..Sq(R.r) : a[(c - 1) * Sq(R.r) + dgt]], R.r, R.hints)

ASSUME QFree(R.ast)
ASSUME NamesOK
Complete == \A a \in Solutions : EvalFull(R.ast, a)
ASSUME Complete
ASSUME PrintT(<<"SOLUTIONS", Cardinality(Solutions)>>)

Init == prefix = <<>>
Extend == /\ Len(prefix) < N
          /\ \E b \in BOOLEAN : S3(R.ast, Append(prefix, b)) # "F" /\ prefix' = Append(prefix, b)
Next == Extend
Spec == Init /\ [][Next]_vars

Sound == (Len(prefix) = N /\ S3(R.ast, prefix) = "T") => IsSolution(prefix)
Lemma == Len(prefix) = N => (S3(R.ast, prefix) # "U" /\ (S3(R.ast, prefix) = "T") = EvalFull(R.ast, prefix))
=============================================================================
