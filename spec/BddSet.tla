------------------------------- MODULE BddSet -------------------------------
(***************************************************************************)
(* C19: BDDSet (src/set.rs) as a mathematical set of b-bit integers.       *)
(* Abstract machine over two sets "A" and "B" that share an environment.   *)
(* Binary operations take a target X and an operand Y, X = Y allowed.      *)
(***************************************************************************)
EXTENDS Naturals, FiniteSets

CONSTANT Bits

Pow2b(n) == IF n = 0 THEN 1 ELSE 2 ^ n
Univ  == 0..(Pow2b(Bits) - 1)
Names == {"A", "B"}

\* st is a record [A |-> set, B |-> set]; every operation returns the new record
Put(st, X, v) == [st EXCEPT ![X] = v]

Insert(st, X, e)     == Put(st, X, st[X] \cup {e})
Union(st, X, Y)      == Put(st, X, st[X] \cup st[Y])
Intersect(st, X, Y)  == Put(st, X, st[X] \cap st[Y])
Complement(st, X, Y) == Put(st, X, st[X] \ st[Y])        \* set difference X := X \ Y
Empty(st, X)         == Put(st, X, {})
Universe(st, X)      == Put(st, X, Univ)
Contains(st, X, e)   == e \in st[X]                      \* a query: the state is unchanged

BinNames == {"union", "intersect", "complement"}

\* one operation as a record: [op, x, y, e]; Apply gives <<state', returned Boolean>>
Ops == [op : {"insert", "contains"}, x : Names, y : {"-"}, e : Univ]
       \cup [op : BinNames, x : Names, y : Names, e : {0}]
       \cup [op : {"empty", "universe"}, x : Names, y : {"-"}, e : {0}]

Apply(st, o) ==
    CASE o.op = "insert"     -> <<Insert(st, o.x, o.e), FALSE>>
      [] o.op = "contains"   -> <<st, Contains(st, o.x, o.e)>>
      [] o.op = "union"      -> <<Union(st, o.x, o.y), FALSE>>
      [] o.op = "intersect"  -> <<Intersect(st, o.x, o.y), FALSE>>
      [] o.op = "complement" -> <<Complement(st, o.x, o.y), FALSE>>
      [] o.op = "empty"      -> <<Empty(st, o.x), FALSE>>
      [] o.op = "universe"   -> <<Universe(st, o.x), FALSE>>

InitSt == [A |-> {}, B |-> {}]
=============================================================================
