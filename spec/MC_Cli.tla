------------------------------- MODULE MC_Cli -------------------------------
(***************************************************************************)
(* The command line pipeline as a state machine, one action per stage of   *)
(* main(), explored for every configuration of a bounded matrix:           *)
(*   formula (spine formulas of depth <= MaxDepth) x row filter x -c x -m. *)
(* At the last stage the printed table / -v lines of the model must        *)
(* satisfy the acceptance predicates of Cli.tla w.r.t. the formula's       *)
(* denotational meaning.  The input channel and the repetition count do    *)
(* not occur in any stage after reading, so the output cannot depend on    *)
(* them (the implementation is checked for that by Trace_Cli).             *)
(***************************************************************************)
EXTENDS Formulas, Cli, TLC

CONSTANT MaxDepth

VARIABLES stage, f, d, filter, retain, model, toks, tree, header, node, rows, lines
vars == <<stage, f, d, filter, retain, model, toks, tree, header, node, rows, lines>>

TT == {"Any", "True", "False"}

Init ==
    /\ stage = "build" /\ f \in Roots /\ d = 0
    /\ filter = "Any" /\ retain = "Any" /\ model = FALSE
    /\ toks = <<>> /\ tree = <<>> /\ header = <<>> /\ node = F /\ rows = <<>> /\ lines = <<>>

Keep(vs) == UNCHANGED vs

\* choose the formula (grow the spine) and the options
Grow == /\ stage = "build" /\ d < MaxDepth /\ d' = d + 1 /\ f' \in Wrap(f)
        /\ Keep(<<stage, filter, retain, model, toks, tree, header, node, rows, lines>>)
Configure ==
    /\ stage = "build" /\ stage' = "tokenize"
    /\ filter' \in TT
    /\ \E p \in {<<"Any", FALSE>>, <<"True", FALSE>>, <<"False", FALSE>>, <<"Any", TRUE>>} : retain' = p[1] /\ model' = p[2]
    /\ Keep(<<f, d, toks, tree, header, node, rows, lines>>)
DoTokenize ==
    /\ stage = "tokenize" /\ stage' = "parse" /\ toks' = Sentence(f, TRUE)
    /\ Keep(<<f, d, filter, retain, model, tree, header, node, rows, lines>>)
DoParse ==
    /\ stage = "parse"
    /\ LET p == Parse(toks) IN stage' = (IF p.ok THEN "freevars" ELSE "error") /\ tree' = p.t
    /\ Keep(<<f, d, filter, retain, model, toks, header, node, rows, lines>>)
DoFreeVars ==
    /\ stage = "freevars" /\ stage' = "eval" /\ header' = SortedNames(FV(tree))
    /\ Keep(<<f, d, filter, retain, model, toks, tree, node, rows, lines>>)
DoEval ==
    /\ stage = "eval"
    /\ IF Converges(tree) THEN stage' = "retain" /\ node' = Ev(tree) ELSE stage' = "diverges" /\ node' = node
    /\ Keep(<<f, d, filter, retain, model, toks, tree, header, rows, lines>>)
DoRetain ==
    /\ stage = "retain" /\ stage' = "model" /\ node' = RetainR(node, retain)
    /\ Keep(<<f, d, filter, retain, model, toks, tree, header, rows, lines>>)
DoModel ==
    /\ stage = "model" /\ stage' = "print" /\ node' = (IF model THEN ModelR(node) ELSE node)
    /\ Keep(<<f, d, filter, retain, model, toks, tree, header, rows, lines>>)
DoPrint ==
    /\ stage = "print" /\ stage' = "done"
    /\ rows' = TableOfDiagram(node, header, filter)
    /\ lines' = VarLinesOf(node, header)
    /\ Keep(<<f, d, filter, retain, model, toks, tree, header, node>>)

Next == Grow \/ Configure \/ DoTokenize \/ DoParse \/ DoFreeVars \/ DoEval \/ DoRetain \/ DoModel \/ DoPrint
Spec == Init /\ [][Next]_vars

OutputOK ==
    stage = "done" =>
        LET G == Meaning(f) IN
        /\ tree = f
        /\ HeaderOK(header, f)
        /\ IF model THEN ModelTableOK(header, rows, G, filter)
           ELSE IF retain # "Any" THEN RetainTableOK(header, rows, G, filter, retain)
           ELSE /\ TableOK(header, rows, G, filter)
                /\ VarsOK(header, lines, G)
                /\ TableFunction(header, rows, filter) = G

NoError == stage # "error"
=============================================================================
