----------------------------- MODULE BddSetImpl -----------------------------
(***************************************************************************)
(* The concrete BDDSet of src/set.rs on top of Bdd.tla: a set is the       *)
(* characteristic function over variables 1..NV (code: symbols 0..bits-1,  *)
(* spec variable i+1 = code symbol i).  categorize(c) is TRUE when bit c   *)
(* of the element is 0, so element e is the minterm                        *)
(*      /\_c (IF bit c of e = 0 THEN x_c ELSE ~x_c).                       *)
(* This module states what the code is meant to do (complement = and-not,  *)
(* contains = pure query); MC_BddSet checks that it refines BddSet.        *)
(***************************************************************************)
EXTENDS Bdd

BitOf(e, c) == (e \div (2 ^ c)) % 2          \* c = 0 .. NV-1

RECURSIVE MintermFrom(_, _, _)
MintermFrom(e, c, acc) ==                     \* fold over c = 0..NV-1, as insert() does
    IF c = NV THEN acc
    ELSE MintermFrom(e, c + 1, AndR(acc, IF BitOf(e, c) = 0 THEN Var(c + 1) ELSE NotR(Var(c + 1))))
Minterm(e) == MintermFrom(e, 0, T)

IInsert(b, e)      == OrR(b, Minterm(e))
IUnion(b, o)       == OrR(b, o)
IIntersect(b, o)   == AndR(b, o)
IComplement(b, o)  == AndR(b, NotR(o))
IEmpty             == F
IUniverse          == T
IContains(b, e)    == AndR(b, Minterm(e)) = Minterm(e)

\* abstraction: the elements of a characteristic function
AsgOf(e) == [v \in Vars |-> BitOf(e, v - 1) = 0]
Elems(b, U) == {e \in U : Den(b, AsgOf(e))}
=============================================================================
