----------------------------- MODULE Trace_Bdd -----------------------------
(***************************************************************************)
(* impl -> spec: validates a recorded ndjson trace of calls into the real  *)
(* BDDEnv against the denotational layer of Bdd.tla.  One record = one     *)
(* public call, logged at its return with full arguments and result, so    *)
(* the search is linear.  Records are independent (the environment history *)
(* is validated by Trace_Env), hence a rejected record is reported and the *)
(* rest of the trace is still checked.                                     *)
(***************************************************************************)
EXTENDS Bdd, TLC, Json, IOUtils

Rec == ndJsonDeserialize(IOEnv.TRACE)

VARIABLE l
vars == <<l>>

AllNodes(q) == \A i \in DOMAIN q : WF(q[i])

BoolOf(x) == x = TRUE

RecOK(r) ==
    CASE r.k = "bin" ->
           /\ WF(r.a) /\ WF(r.b) /\ WF(r.r)
           /\ Sat(r.r) = {s \in Asg : BinSem(r.op, Den(r.a, s), Den(r.b, s))}
      [] r.k = "not" ->
           /\ WF(r.a) /\ WF(r.r)
           /\ Sat(r.r) = Asg \ Sat(r.a)
      [] r.k = "ite" ->
           /\ WF(r.a) /\ WF(r.b) /\ WF(r.c) /\ WF(r.r)
           /\ Sat(r.r) = {s \in Asg : IF Den(r.a, s) THEN Den(r.b, s) ELSE Den(r.c, s)}
      [] r.k = "var" ->
           /\ WF(r.r) /\ Sat(r.r) = {s \in Asg : s[r.v]}
      [] r.k = "const" ->
           /\ r.r = Const(r.b)
      [] r.k \in {"exists", "all"} ->
           LET VS == SeqRange(r.vs) \cap Vars IN
           /\ WF(r.f) /\ WF(r.r)
           /\ Sat(r.r) = (IF r.k = "exists" THEN ExistsSem(VS, Sat(r.f)) ELSE ForallSem(VS, Sat(r.f)))
           /\ Mentions(r.r) \cap VS = {}
           /\ (VS \cap Support(r.f) = {}) => r.r = r.f
      [] r.k = "cc" ->
           /\ AllNodes(r.bs) /\ WF(r.r)
           /\ Sat(r.r) = {s \in Asg : CmpSem(r.kind, CountTrue(r.bs, s), r.n)}
      [] r.k = "cl" ->
           /\ AllNodes(r.p) /\ AllNodes(r.q) /\ WF(r.r)
           /\ Sat(r.r) = {s \in Asg : CmpListSem(r.kind, CountTrue(r.p, s), CountTrue(r.q, s))}
      [] r.k = "model" ->
           /\ WF(r.f)
           /\ ModelOK(r.f, r.m)
           /\ \A i \in DOMAIN r.infer :
                LET e == r.infer[i]
                    d == IF e[1] = "m" THEN r.m ELSE r.f
                IN InferOK(d, e[2], <<e[3], e[4]>>)
      [] r.k = "fp" ->
           \* library iterator: first element of a, t(a), t(t(a)).. that t maps to itself; the
           \* transformer is logged as the table of the entries it was asked for
           LET D == {r.table[i][1] : i \in DOMAIN r.table}
               t == [n \in D |-> r.table[CHOOSE i \in DOMAIN r.table : r.table[i][1] = n][2]]
           IN /\ r.a \in D
              /\ FpIter(r.a, t, Len(r.table) + 1, 0) = <<r.res, r.calls, TRUE>>
      [] r.k = "retain" ->
           /\ WF(r.f)
           /\ RetainOK(r.f, r.flt, r.r)
      [] OTHER -> FALSE

Init == l = 1
Step ==
    /\ l <= Len(Rec)
    /\ l' = l + 1
    /\ IF RecOK(Rec[l]) THEN TRUE ELSE PrintT("REJECT|" \o ToString(l) \o "|")
Next == Step
Spec == Init /\ [][Next]_vars

Consumed ==
    \/ TLCGet("stats").diameter - 1 = Len(Rec)
    \/ (PrintT(<<"INCOMPLETE", TLCGet("stats").diameter>>) /\ FALSE)
=============================================================================
