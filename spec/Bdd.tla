-------------------------------- MODULE Bdd --------------------------------
(***************************************************************************)
(* Node algebra of rsbdd (src/bdd.rs) -- structural layer -- and an        *)
(* independent denotational layer (sets of satisfying assignments).        *)
(*                                                                         *)
(* A node is a nested tuple:  F == <<0>>,  T == <<1>>,                      *)
(* choice == <<v, hi, lo>>  (hi = true-child, the field order of           *)
(* BDD::Choice(true_subtree, symbol, false_subtree)).  Variables are       *)
(* 1..NV, a smaller index is nearer the root (Ord on the symbol).          *)
(* Tuple equality is exactly Rust's derived PartialEq on BDD.              *)
(*                                                                         *)
(* The algorithmic operators have the recursion shape of the code, one per *)
(* function, so that the spec can be diffed against bdd.rs.  The           *)
(* denotational operators never mention them.                              *)
(***************************************************************************)
EXTENDS Naturals, Integers, Sequences, FiniteSets

CONSTANT NV

Vars == 1..NV

F == <<0>>
T == <<1>>
IsLeaf(n) == Len(n) = 1
Const(b)  == IF b THEN T ELSE F

---------------------------------------------------------------------------
(* Structural / algorithmic layer: bdd.rs                                  *)

\* simplify + mk_choice (bdd.rs:148-169, 467-472)
Mk(t, v, f) == IF t = f THEN t ELSE <<v, t, f>>

\* var (bdd.rs:303)
Var(v) == Mk(T, v, F)

\* and (bdd.rs:200-222): terminal cases in code order, then 3-way split
RECURSIVE AndR(_, _)
AndR(a, b) ==
    IF a = F \/ b = F THEN F
    ELSE IF a = T THEN b
    ELSE IF b = T THEN a
    ELSE IF a[1] < b[1] THEN Mk(AndR(a[2], b), a[1], AndR(a[3], b))
    ELSE IF b[1] < a[1] THEN Mk(AndR(b[2], a), b[1], AndR(b[3], a))
    ELSE Mk(AndR(a[2], b[2]), a[1], AndR(a[3], b[3]))

\* or (bdd.rs:225-250)
RECURSIVE OrR(_, _)
OrR(a, b) ==
    IF a = T \/ b = T THEN T
    ELSE IF a = F THEN b
    ELSE IF b = F THEN a
    ELSE IF a[1] < b[1] THEN Mk(OrR(a[2], b), a[1], OrR(a[3], b))
    ELSE IF b[1] < a[1] THEN Mk(OrR(b[2], a), b[1], OrR(b[3], a))
    ELSE Mk(OrR(a[2], b[2]), a[1], OrR(a[3], b[3]))

\* not (bdd.rs:253-261)
RECURSIVE NotR(_)
NotR(a) ==
    IF a = F THEN T
    ELSE IF a = T THEN F
    ELSE Mk(NotR(a[2]), a[1], NotR(a[3]))

\* derived connectives, exactly as composed in bdd.rs:264-300
Implies(a, b) == OrR(NotR(a), b)
Ite(a, b, c)  == AndR(Implies(a, b), Implies(NotR(a), c))
Eq(a, b)      == AndR(Implies(a, b), Implies(b, a))
Xor(a, b)     == OrR(AndR(NotR(a), b), AndR(a, NotR(b)))
Nor(a, b)     == AndR(NotR(a), NotR(b))
Nand(a, b)    == NotR(AndR(a, b))

BinOps == {"and", "or", "xor", "nor", "nand", "implies", "impliesinv", "iff"}

\* dispatch used by the evaluator model and by the tables; "impliesinv" is
\* evaluated as implies(r, l) (parser.rs:372)
BinR(op, a, b) ==
    CASE op = "and"        -> AndR(a, b)
      [] op = "or"         -> OrR(a, b)
      [] op = "xor"        -> Xor(a, b)
      [] op = "nor"        -> Nor(a, b)
      [] op = "nand"       -> Nand(a, b)
      [] op = "implies"    -> Implies(a, b)
      [] op = "impliesinv" -> Implies(b, a)
      [] op = "iff"        -> Eq(a, b)

\* cmp_count (bdd.rs:307-340): comparator applied to the remaining budget
CmpBase(kind, n) ==
    CASE kind = "aln" -> n <= 0
      [] kind = "amn" -> n >= 0
      [] kind = "exn" -> n = 0

RECURSIVE CmpCount(_, _, _)
CmpCount(bs, n, kind) ==
    IF bs = <<>> THEN Const(CmpBase(kind, n))
    ELSE Ite(Head(bs), CmpCount(Tail(bs), n - 1, kind), CmpCount(Tail(bs), n, kind))

Aln(bs, n) == CmpCount(bs, n, "aln")
Amn(bs, n) == CmpCount(bs, n, "amn")
Exn(bs, n) == CmpCount(bs, n, "exn")

\* cmp_count_compare (bdd.rs:359-378) and the five list-vs-list forms
RECURSIVE CmpCountCompare(_, _, _, _)
CmpCountCompare(a, b, n, kind) ==
    IF a = <<>> THEN CmpCount(b, n, kind)
    ELSE Ite(Head(a), CmpCountCompare(Tail(a), b, n + 1, kind),
                      CmpCountCompare(Tail(a), b, n, kind))

CountLeq(a, b) == CmpCountCompare(a, b, 0, "aln")
CountLt(a, b)  == CmpCountCompare(a, b, 1, "aln")
CountGeq(a, b) == CmpCountCompare(a, b, 0, "amn")
CountGt(a, b)  == CmpCountCompare(a, b, -1, "amn")
CountEq(a, b)  == AndR(CountLeq(a, b), CountGeq(a, b))

\* exists_impl / exists / all (bdd.rs:392-419); vs is a sequence
RECURSIVE ExistsImpl(_, _)
ExistsImpl(v, b) ==
    IF IsLeaf(b) THEN b
    ELSE IF b[1] = v THEN OrR(b[2], b[3])
    ELSE Mk(ExistsImpl(v, b[2]), b[1], ExistsImpl(v, b[3]))

RECURSIVE Exists(_, _)
Exists(vs, b) ==
    IF vs = <<>> THEN b ELSE ExistsImpl(Head(vs), Exists(Tail(vs), b))

All(vs, b) == NotR(Exists(vs, NotR(b)))

\* fp (bdd.rs:422-435): first x of a, t(a), t(t(a)).. with t(x) = x.
\* t is given as a function (table); fuel bounds TLC's recursion.  The
\* result is <<x, calls>> where calls = number of applications of t.
RECURSIVE FpIter(_, _, _, _)
FpIter(x, t, fuel, calls) ==
    LET y == t[x] IN
    IF y = x THEN <<x, calls + 1, TRUE>>
    ELSE IF fuel = 0 THEN <<x, calls + 1, FALSE>>
    ELSE FpIter(y, t, fuel - 1, calls + 1)

\* model (bdd.rs:437-452): prefers the true branch
RECURSIVE ModelR(_)
ModelR(a) ==
    IF IsLeaf(a) THEN a
    ELSE LET lhs == ModelR(a[2])
             rhs == ModelR(a[3])
         IN IF lhs # F THEN AndR(lhs, Var(a[1]))
            ELSE IF rhs # F THEN AndR(NotR(Var(a[1])), rhs)
            ELSE F

\* infer (bdd.rs:457-464)
Infer(a, v) ==
    LET ff == Implies(a, Var(v)) IN
    IF ff = T THEN <<TRUE, TRUE>>
    ELSE IF ff = F THEN <<TRUE, FALSE>>
    ELSE <<FALSE, FALSE>>

\* retain_choice_bottom_up (bdd.rs:474-511); filter \in {"True","False","Any"}
RECURSIVE RetainR(_, _)
RetainR(src, filter) ==
    IF filter = "Any" THEN src
    ELSE IF IsLeaf(src) THEN src
    ELSE LET left  == RetainR(src[2], filter)
             right == RetainR(src[3], filter)
             ft    == (filter = "True")
         IN IF IsLeaf(left) /\ ~IsLeaf(right)
            THEN (IF (left = T) # ft THEN right ELSE Mk(left, src[1], right))
            ELSE IF IsLeaf(right) /\ ~IsLeaf(left)
            THEN (IF (right = T) # ft THEN left ELSE Mk(left, src[1], right))
            ELSE Mk(left, src[1], right)

---------------------------------------------------------------------------
(* Denotational layer -- written from the property statements, never      *)
(* refers to the operators above.                                          *)

Asg == [Vars -> BOOLEAN]

RECURSIVE Den(_, _)
Den(n, s) ==
    IF n = F THEN FALSE
    ELSE IF n = T THEN TRUE
    ELSE IF s[n[1]] THEN Den(n[2], s) ELSE Den(n[3], s)

Sat(n) == {s \in Asg : Den(n, s)}

Flip(s, v) == [s EXCEPT ![v] = ~s[v]]

\* a set of assignments depends on v
DependsOn(S, v) == \E s \in Asg : (s \in S) # (Flip(s, v) \in S)
SupportOfSet(S) == {v \in Vars : DependsOn(S, v)}
Support(n)      == SupportOfSet(Sat(n))

\* variables syntactically tested in n
RECURSIVE Mentions(_)
Mentions(n) == IF IsLeaf(n) THEN {} ELSE {n[1]} \cup Mentions(n[2]) \cup Mentions(n[3])

\* sub-nodes (incl. n and leaves)
RECURSIVE Sub(_)
Sub(n) == IF IsLeaf(n) THEN {n} ELSE {n} \cup Sub(n[2]) \cup Sub(n[3])

\* shape: a finite tree of leaves <<0>>, <<1>> and choices <<v,hi,lo>>
RECURSIVE IsNode(_)
IsNode(n) ==
    \/ n = F
    \/ n = T
    \/ /\ Len(n) = 3
       /\ n[1] \in Vars
       /\ IsNode(n[2])
       /\ IsNode(n[3])

\* ordered: variables strictly increase along every path
RECURSIVE OrderedAbove(_, _)
OrderedAbove(n, v) ==
    IF IsLeaf(n) THEN TRUE
    ELSE n[1] > v /\ OrderedAbove(n[2], n[1]) /\ OrderedAbove(n[3], n[1])
Ordered(n) == OrderedAbove(n, 0)

\* reduced: no test whose two outcomes are the same diagram
RECURSIVE Reduced(_)
Reduced(n) ==
    IF IsLeaf(n) THEN TRUE
    ELSE n[2] # n[3] /\ Reduced(n[2]) /\ Reduced(n[3])

WF(n) == IsNode(n) /\ Ordered(n) /\ Reduced(n)

\* all well-formed nodes, built level by level (not via Canon)
RECURSIVE WFFrom(_)
WFFrom(v) ==
    IF v > NV THEN {F, T}
    ELSE LET R == WFFrom(v + 1)
         IN R \cup {<<v, p[1], p[2]>> : p \in {q \in R \X R : q[1] # q[2]}}
AllWF == WFFrom(1)

\* ROBDD of a set of assignments by Shannon expansion on 1..NV.  Below
\* level v the set is normalised to assignments that are FALSE on 1..v-1.
RECURSIVE CanonR(_, _)
CanonR(S, v) ==
    IF v > NV THEN (IF S = {} THEN F ELSE T)
    ELSE LET hi == CanonR({[s EXCEPT ![v] = FALSE] : s \in {x \in S : x[v]}}, v + 1)
             lo == CanonR({s \in S : ~s[v]}, v + 1)
         IN IF hi = lo THEN hi ELSE <<v, hi, lo>>
Canon(S) == CanonR(S, 1)

\* a conjunction of literals: exactly one path to T, everything else F
RECURSIVE IsCube(_)
IsCube(n) ==
    IF n = T THEN TRUE
    ELSE IF n = F THEN FALSE
    ELSE \/ n[3] = F /\ IsCube(n[2])
         \/ n[2] = F /\ IsCube(n[3])

\* pointwise meaning of the connectives
BinSem(op, x, y) ==
    CASE op = "and"        -> x /\ y
      [] op = "or"         -> x \/ y
      [] op = "xor"        -> x # y
      [] op = "nor"        -> ~(x \/ y)
      [] op = "nand"       -> ~(x /\ y)
      [] op = "implies"    -> (x => y)
      [] op = "impliesinv" -> (y => x)
      [] op = "iff"        -> (x = y)

\* number of operands of the list bs that are true under s
RECURSIVE CountTrue(_, _)
CountTrue(bs, s) ==
    IF bs = <<>> THEN 0
    ELSE (IF Den(Head(bs), s) THEN 1 ELSE 0) + CountTrue(Tail(bs), s)

CmpSem(kind, c, n) ==
    CASE kind = "aln" -> c >= n
      [] kind = "amn" -> c <= n
      [] kind = "exn" -> c = n

CmpListSem(kind, c1, c2) ==
    CASE kind = "leq" -> c1 <= c2
      [] kind = "lt"  -> c1 < c2
      [] kind = "geq" -> c1 >= c2
      [] kind = "gt"  -> c1 > c2
      [] kind = "eq"  -> c1 = c2

\* s and s2 agree outside the variable set V
AgreeOutside(s, s2, V) == \A v \in Vars \ V : s[v] = s2[v]

ExistsSem(V, S) == {s \in Asg : \E s2 \in S : AgreeOutside(s, s2, V)}
ForallSem(V, S) == {s \in Asg : \A s2 \in Asg : AgreeOutside(s, s2, V) => s2 \in S}

SeqRange(q) == {q[i] : i \in DOMAIN q}

---------------------------------------------------------------------------
(* Property predicates (what the code's answer must satisfy; deliberately *)
(* weaker than the algorithm where the property is).                       *)

\* C07: model
ModelOK(f, m) ==
    /\ WF(m)
    /\ (m = F) <=> (Sat(f) = {})
    /\ m # F => /\ IsCube(m)
                /\ Mentions(m) \subseteq Support(f)
                /\ Sat(m) \subseteq Sat(f)

\* C07: infer(m, v) = (true,true) exactly when m forces v to be true
InferOK(m, v, res) ==
    (res = <<TRUE, TRUE>>) <=> (\A s \in Sat(m) : s[v])

\* C20: retain
RetainOK(f, filter, r) ==
    /\ WF(r)
    /\ Mentions(r) \subseteq Support(f)
    /\ filter = "True"  => Sat(f) \subseteq Sat(r)
    /\ filter = "False" => Sat(r) \subseteq Sat(f)
    /\ filter = "Any"   => r = f

=============================================================================
