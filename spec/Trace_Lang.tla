----------------------------- MODULE Trace_Lang -----------------------------
(***************************************************************************)
(* impl -> spec for the formula language.  Records (independent):          *)
(*  "formula": a text was parsed AND evaluated by the real code; the       *)
(*      record carries the real parser's tree (names renamed n1..nK by     *)
(*      variable id), the truth table of the returned diagram by name,     *)
(*      .free_vars and .vars.  Required: the table is Meaning(tree), the   *)
(*      free / all names are FV / NamesOf in id order.                     *)
(*  "text": a text (characters inside the modelled alphabet) was given to  *)
(*      the real tokenizer and parser; required: Tokenize / ParseText      *)
(*      agree on Ok/Err, token list and tree.                              *)
(*  "outcome": a panic -- no action matches it.                            *)
(***************************************************************************)
EXTENDS Lang, Syntax, TLC, Json, IOUtils

NS6 == <<"n1", "n2", "n3", "n4", "n5", "n6">>
NS3 == <<"n1", "n2", "n3">>
NS2 == <<"n1", "n2">>
NS1 == <<"n1">>
NS5 == <<"n1", "n2", "n3", "n4", "n5">>
NS4 == <<"n1", "n2", "n3", "n4">>

Rec == ndJsonDeserialize(IOEnv.TRACE)

VARIABLE l
vars == <<l>>

FormulaVerdict(r) ==
    LET m == SemC(r.ast, <<>>) IN
    IF ~m.ok THEN "specification: fixed point does not converge within the fuel"
    ELSE IF SetOfTable(r.tt) # m.s THEN "truth table differs from the documented meaning"
    ELSE IF ~r.ref /\ r.fv # SortedNames(FV(r.ast)) THEN "free variables differ"
    ELSE IF r.vars # SortedNames(NamesOf(r.ast)) THEN "variable list differs"
    ELSE IF ~r.ref /\ ~(SeqRange(r.support) \subseteq FV(r.ast)) THEN "result depends on a bound name"
    ELSE IF r.is_true # (m.s = NAsg) \/ r.is_false # (m.s = {}) THEN "constant answer wrong"
    ELSE ""

TextVerdict(r) ==
    LET tk == Tokenize(r.chars) IN
    IF tk.loose /\ (~r.tok_ok \/ ~r.parse_ok) THEN ""       \* a literal beyond usize may be rejected
    ELSE IF tk.ok # r.tok_ok THEN "tokenizer Ok/Err differs"
    ELSE IF tk.ok /\ tk.toks # r.toks THEN "token list differs"
    ELSE LET p == ParseText(r.chars) IN
         IF p.ok # r.parse_ok THEN (IF r.parse_ok THEN "accepted a text that is not a sentence" ELSE "rejected a sentence")
         ELSE IF p.ok /\ p.t # r.tree THEN "tree differs from the grammar's"
         ELSE ""

Verdict(r) ==
    CASE r.k = "formula" -> FormulaVerdict(r)
      [] r.k = "text"    -> TextVerdict(r)
      [] r.k = "bytes"   -> \* arbitrary bytes as formula and as ordering file: every action of the
                            \* pipeline ends in Ok or Err; there is no action for a panic
                            IF r.formula \in {"ok", "ok-evaluated", "err"} /\ r.order \in {"ok", "err"} THEN "" ELSE "panic / unknown record"
      [] OTHER           -> "panic / unknown record"

Init == l = 1
Step ==
    /\ l <= Len(Rec)
    /\ l' = l + 1
    /\ LET v == Verdict(Rec[l]) IN IF v = "" THEN TRUE ELSE PrintT("REJECT|" \o ToString(l) \o "|" \o v)
Next == Step
Spec == Init /\ [][Next]_vars

Consumed ==
    \/ TLCGet("stats").diameter - 1 = Len(Rec)
    \/ (PrintT(<<"INCOMPLETE", TLCGet("stats").diameter>>) /\ FALSE)
=============================================================================
