------------------------------ MODULE MC_Lang ------------------------------
(***************************************************************************)
(* Formula builder machine: a state is a formula; a step wraps it in one   *)
(* more constructor (the other operands are atoms), so TLC's breadth-first *)
(* search enumerates all "spine" formulas up to MaxDepth, in parallel and  *)
(* without duplicates.  Invariant Holds evaluates, on every formula:       *)
(*   C01  Ev(f) = Canon(Meaning(f))        (evaluator model = semantics)   *)
(*   C09  the evaluated diagram mentions only free names                   *)
(*   C08  Parse(Print(f)) = f for the strict and the minimal-paren printer *)
(*   C06  (Mode = "fix") lfp/gfp of a monotone body is the least/greatest  *)
(*        fixed point among ALL subsets (Knaster-Tarski), reached within   *)
(*        |NAsg|+1 iterations by Sem and by the evaluator model            *)
(* With Emit every formula is printed with its expected observations for   *)
(* spec -> impl replay.                                                     *)
(***************************************************************************)
EXTENDS Lang, Syntax, TLC, Json

CONSTANTS MaxDepth, Mode, Emit, FixVars,
          SampleK    \* formulas deeper than 1 are emitted with probability 1/SampleK

ASSUME NV = Len(NameSeq)

\* name orders selectable from a cfg file (cfg files cannot contain tuples): NameSeq <- NS_abX
NS_abX == <<"a", "b", "X">>
NS_aX  == <<"a", "X">>
NS_Xa  == <<"X", "a">>
NS_aXb == <<"a", "X", "b">>

VARIABLES f, d
vars == <<f, d>>

VarAtoms == {<<"var", NameSeq[i]>> : i \in DOMAIN NameSeq}
Atoms == {<<"true">>, <<"false">>} \cup VarAtoms
\* the atoms used as "other operand" of a wrapper
Side == VarAtoms \cup {<<"true">>}
A1 == <<"var", NameSeq[1]>>
AL == <<"var", NameSeq[Len(NameSeq)]>>

VLists == {<<>>, <<NameSeq[1]>>, <<NameSeq[Len(NameSeq)]>>, <<NameSeq[1], NameSeq[1]>>}
              \cup {<<NameSeq[i], NameSeq[j]>> : i \in DOMAIN NameSeq, j \in DOMAIN NameSeq}

Wrap(g) ==
    {<<"not", g>>}
    \cup {<<"bin", op, g, s>> : op \in BinOpNames, s \in Side}
    \cup {<<"bin", op, s, g>> : op \in BinOpNames, s \in Side}
    \cup {<<"ite", g, s, t>> : s \in Side, t \in {A1, <<"false">>}}
    \cup {<<"ite", s, g, t>> : s \in VarAtoms, t \in {AL, <<"true">>}}
    \cup {<<"ite", s, t, g>> : s \in VarAtoms, t \in {AL, <<"false">>}}
    \cup {<<"q", q, vs, g>> : q \in {"exists", "forall"}, vs \in VLists}
    \cup {<<"fix", x, init, g>> : x \in FixVars, init \in BOOLEAN}
    \cup {<<"cc", cmp, l, n>> : cmp \in CmpNames, n \in 0..3,
                                l \in {<<g>>, <<g, A1>>, <<AL, g>>, <<g, g>>, <<A1, g, AL>>}}
    \cup {<<"cc", cmp, <<g>>, NumCap>> : cmp \in CmpNames}      \* a literal beyond every list length
    \cup {<<"cv", cmp, p[1], p[2]>> : cmp \in CmpNames,
                                p \in {<< <<g>>, <<>> >>, << <<>>, <<g>> >>, << <<g>>, <<A1>> >>,
                                       << <<AL>>, <<g>> >>, << <<g, A1>>, <<AL>> >>, << <<A1, AL>>, <<g, g>> >>}}

Roots ==
    Atoms \cup {<<"ref", "r">>}
          \cup {<<"cc", cmp, <<>>, n>> : cmp \in CmpNames, n \in {0, 1}}
          \cup {<<"cv", cmp, <<>>, <<>>>> : cmp \in {"exactly", "lessthan"}}

---------------------------------------------------------------------------
FreeIdx(g) == {IdxOf(n) : n \in FV(g)}

ThmLang(g) ==
    /\ Parse(Sentence(g, TRUE)) = [ok |-> TRUE, t |-> g]
    /\ Parse(Sentence(g, FALSE)) = [ok |-> TRUE, t |-> g]
    /\ FV(g) \subseteq NamesOf(g)
    /\ LET m == SemC(g, <<>>) IN
       m.ok => LET e == Ev(g) IN
               /\ e = Canon(ToIdxSet(m.s))
               /\ Mentions(e) \subseteq FreeIdx(g)

\* g is a body; x ranges over FixVars
ThmFix(g) ==
    \A x \in FixVars :
        MonoC(x, g, <<>>) =>
            LET lf == <<"fix", x, FALSE, g>>
                gf == <<"fix", x, TRUE, g>>
            IN /\ Converges(lf) /\ Converges(gf)
               /\ IsLfp(Meaning(lf), x, g, <<>>)
               /\ IsGfp(Meaning(gf), x, g, <<>>)
               /\ Ev(lf) = Canon(ToIdxSet(Meaning(lf)))
               /\ Ev(gf) = Canon(ToIdxSet(Meaning(gf)))
               \* reached within |NAsg| + 1 applications: one more application changes nothing
               /\ FixIter(x, g, <<>>, {}, Cardinality(NAsg)) = Meaning(lf)
               /\ FixIter(x, g, <<>>, NAsg, Cardinality(NAsg)) = Meaning(gf)

Thm(g) == IF Mode = "fix" THEN ThmFix(g) ELSE ThmLang(g)

Case(g) ==
    IF Mode = "fix"
    THEN [t |-> g, names |-> NameSeq,
          mono |-> [i \in DOMAIN NameSeq |-> NameSeq[i] \in FixVars /\ MonoC(NameSeq[i], g, <<>>)],
          lfp |-> [i \in DOMAIN NameSeq |->
                     IF NameSeq[i] \in FixVars /\ MonoC(NameSeq[i], g, <<>>)
                     THEN TruthTable(Meaning(<<"fix", NameSeq[i], FALSE, g>>)) ELSE <<>>],
          gfp |-> [i \in DOMAIN NameSeq |->
                     IF NameSeq[i] \in FixVars /\ MonoC(NameSeq[i], g, <<>>)
                     THEN TruthTable(Meaning(<<"fix", NameSeq[i], TRUE, g>>)) ELSE <<>>],
          toks |-> Print(g, TRUE)]
    ELSE LET m == SemC(g, <<>>) IN
         [t |-> g, names |-> NameSeq, conv |-> m.ok,
          tt |-> IF m.ok THEN TruthTable(m.s) ELSE <<>>,
          fv |-> SortedNames(FV(g)), all |-> SortedNames(NamesOf(g)), ref |-> HasRef(g),
          loose |-> Sentence(g, TRUE), strict |-> Sentence(g, FALSE)]

Holds == Thm(f) /\ ((Emit /\ (d < 2 \/ RandomElement(1..SampleK) = 1)) => PrintT(<<"CASE", ToJson(Case(f))>>))

Init == f \in Roots /\ d = 0
Grow == d < MaxDepth /\ d' = d + 1 /\ f' \in Wrap(f)
Next == Grow
Spec == Init /\ [][Next]_vars
=============================================================================
