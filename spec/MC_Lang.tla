------------------------------ MODULE MC_Lang ------------------------------
(***************************************************************************)
(* Formula builder machine: a state is a formula; a step wraps it in one   *)
(* more constructor (the other operands are atoms), so TLC's breadth-first *)
(* search enumerates all "spine" formulas up to MaxDepth, in parallel and  *)
(* without duplicates.  Invariant Holds evaluates, on every formula:       *)
(*   C01  Ev(f) = Canon(Meaning(f))        (evaluator model = semantics)   *)
(*   C09  the evaluated diagram mentions only free names                   *)
(*   C08  Parse(Print(f)) = f for the strict and the minimal-paren printer *)
(*   C06  (Mode = "fix") lfp/gfp of a monotone body is the least/greatest  *)
(*        fixed point among ALL subsets (Knaster-Tarski), reached within   *)
(*        |NAsg|+1 iterations by Sem and by the evaluator model            *)
(* With Emit every formula is printed with its expected observations for   *)
(* spec -> impl replay.                                                     *)
(***************************************************************************)
EXTENDS Formulas, TLC, Json

CONSTANTS MaxDepth, Mode, Emit,
          SampleK,   \* formulas deeper than 1 are emitted with probability 1/SampleK
          CheckK     \* formulas deeper than 1 are checked (and possibly emitted) with probability 1/CheckK;
                     \* 1 = every formula.  Used where the theorem is expensive (Mode = "fix", depth 2).

ASSUME NV = Len(NameSeq)


VARIABLES f, d
vars == <<f, d>>

---------------------------------------------------------------------------
FreeIdx(g) == {IdxOf(n) : n \in FV(g)}

ThmLang(g) ==
    /\ Parse(Sentence(g, TRUE)) = [ok |-> TRUE, t |-> g]
    /\ Parse(Sentence(g, FALSE)) = [ok |-> TRUE, t |-> g]
    /\ FV(g) \subseteq NamesOf(g)
    /\ LET m == SemC(g, <<>>) IN
       m.ok => LET e == Ev(g) IN
               /\ e = Canon(ToIdxSet(m.s))
               /\ Mentions(e) \subseteq FreeIdx(g)

\* g is a body; x ranges over FixVars
ThmFix(g) ==
    \A x \in FixVars :
        MonoC(x, g, <<>>) =>
            LET lf == <<"fix", x, FALSE, g>>
                gf == <<"fix", x, TRUE, g>>
            IN /\ Converges(lf) /\ Converges(gf)
               /\ IsLfp(Meaning(lf), x, g, <<>>)
               /\ IsGfp(Meaning(gf), x, g, <<>>)
               /\ Ev(lf) = Canon(ToIdxSet(Meaning(lf)))
               /\ Ev(gf) = Canon(ToIdxSet(Meaning(gf)))
               \* reached within |NAsg| + 1 applications: one more application changes nothing
               /\ FixIter(x, g, <<>>, {}, Cardinality(NAsg)) = Meaning(lf)
               /\ FixIter(x, g, <<>>, NAsg, Cardinality(NAsg)) = Meaning(gf)

Thm(g) == IF Mode = "fix" THEN ThmFix(g) ELSE ThmLang(g)

Case(g) ==
    IF Mode = "fix"
    THEN [t |-> g, names |-> NameSeq,
          mono |-> [i \in DOMAIN NameSeq |-> NameSeq[i] \in FixVars /\ MonoC(NameSeq[i], g, <<>>)],
          lfp |-> [i \in DOMAIN NameSeq |->
                     IF NameSeq[i] \in FixVars /\ MonoC(NameSeq[i], g, <<>>)
                     THEN TruthTable(Meaning(<<"fix", NameSeq[i], FALSE, g>>)) ELSE <<>>],
          gfp |-> [i \in DOMAIN NameSeq |->
                     IF NameSeq[i] \in FixVars /\ MonoC(NameSeq[i], g, <<>>)
                     THEN TruthTable(Meaning(<<"fix", NameSeq[i], TRUE, g>>)) ELSE <<>>],
          toks |-> Unparse(g, TRUE)]
    ELSE LET m == SemC(g, <<>>) IN
         [t |-> g, names |-> NameSeq, conv |-> m.ok,
          tt |-> IF m.ok THEN TruthTable(m.s) ELSE <<>>,
          fv |-> SortedNames(FV(g)), all |-> SortedNames(NamesOf(g)), ref |-> HasRef(g),
          loose |-> Sentence(g, TRUE), strict |-> Sentence(g, FALSE)]

Holds ==
    (d < 2 \/ CheckK = 1 \/ RandomElement(1..CheckK) = 1) =>
        (Thm(f) /\ ((Emit /\ (d < 2 \/ RandomElement(1..SampleK) = 1)) => PrintT(<<"CASE", ToJson(Case(f))>>)))

Init == f \in Roots /\ d = 0
Grow == d < MaxDepth /\ d' = d + 1 /\ f' \in Wrap(f)
Next == Grow
Spec == Init /\ [][Next]_vars
=============================================================================
