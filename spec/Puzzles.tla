------------------------------ MODULE Puzzles ------------------------------
(***************************************************************************)
(* What the four generators must mean (C15-C18), independent of their      *)
(* text: the mathematical definition of each puzzle, and a generic         *)
(* evaluator for quantifier-free rsbdd trees over indexed variables        *)
(* (<<"var", i>>, i \in 1..N) under total and partial assignments.         *)
(* <<"andlist", <<c1, .., ck>>>> stands for the right-nested conjunction   *)
(* c1 & (c2 & (.. & ck)) -- the JSON reader of TLC limits nesting to 255,  *)
(* so the orchestrator flattens long top-level conjunction chains.         *)
(***************************************************************************)
EXTENDS Naturals, Integers, Sequences, FiniteSets

---------------------------------------------------------------------------
(* evaluation of quantifier-free trees                                     *)

BinSemP(op, x, y) ==
    CASE op = "and" -> x /\ y [] op = "or" -> x \/ y [] op = "xor" -> x # y [] op = "nor" -> ~(x \/ y)
      [] op = "nand" -> ~(x /\ y) [] op = "implies" -> (x => y) [] op = "impliesinv" -> (y => x) [] op = "iff" -> (x = y)

CmpP(cmp, c, n) ==
    CASE cmp = "exactly" -> c = n [] cmp = "atmost" -> c <= n [] cmp = "atleast" -> c >= n
      [] cmp = "lessthan" -> c < n [] cmp = "morethan" -> c > n

\* total assignment a: sequence of BOOLEAN indexed by variable
RECURSIVE EvalFull(_, _)
EvalFull(t, a) ==
    LET k == t[1] IN
    CASE k = "true" -> TRUE
      [] k = "false" -> FALSE
      [] k = "var" -> a[t[2]]
      [] k = "not" -> ~EvalFull(t[2], a)
      [] k = "bin" -> BinSemP(t[2], EvalFull(t[3], a), EvalFull(t[4], a))
      [] k = "andlist" -> \A i \in DOMAIN t[2] : EvalFull(t[2][i], a)   \* a flattened right-nested conjunction
      [] k = "ite" -> IF EvalFull(t[2], a) THEN EvalFull(t[3], a) ELSE EvalFull(t[4], a)
      [] k = "cc" -> CmpP(t[2], Cardinality({i \in DOMAIN t[3] : EvalFull(t[3][i], a)}), t[4])
      [] k = "cv" -> CmpP(t[2], Cardinality({i \in DOMAIN t[3] : EvalFull(t[3][i], a)}),
                                Cardinality({i \in DOMAIN t[4] : EvalFull(t[4][i], a)}))

\* three-valued evaluation under a prefix p (variables 1..Len(p) assigned): "T" / "F" definitely,
\* "U" depends on unassigned variables.  Sound: "T"/"F" hold for every completion of p.
Neg3(x) == IF x = "T" THEN "F" ELSE IF x = "F" THEN "T" ELSE "U"
And3(x, y) == IF x = "F" \/ y = "F" THEN "F" ELSE IF x = "T" /\ y = "T" THEN "T" ELSE "U"
Or3(x, y) == Neg3(And3(Neg3(x), Neg3(y)))
Bin3(op, x, y) ==
    CASE op = "and" -> And3(x, y) [] op = "or" -> Or3(x, y) [] op = "nor" -> Neg3(Or3(x, y)) [] op = "nand" -> Neg3(And3(x, y))
      [] op = "implies" -> Or3(Neg3(x), y) [] op = "impliesinv" -> Or3(Neg3(y), x)
      [] op = "xor" -> (IF x = "U" \/ y = "U" THEN "U" ELSE IF x # y THEN "T" ELSE "F")
      [] op = "iff" -> (IF x = "U" \/ y = "U" THEN "U" ELSE IF x = y THEN "T" ELSE "F")
\* a count known to lie in lo..hi compared with a count in lo2..hi2
Cmp3(cmp, lo, hi, lo2, hi2) ==
    LET always == CASE cmp = "exactly" -> lo = hi /\ lo2 = hi2 /\ lo = lo2
                    [] cmp = "atmost" -> hi <= lo2 [] cmp = "atleast" -> lo >= hi2
                    [] cmp = "lessthan" -> hi < lo2 [] cmp = "morethan" -> lo > hi2
        never  == CASE cmp = "exactly" -> hi < lo2 \/ lo > hi2
                    [] cmp = "atmost" -> lo > hi2 [] cmp = "atleast" -> hi < lo2
                    [] cmp = "lessthan" -> lo >= hi2 [] cmp = "morethan" -> hi <= lo2
    IN IF always THEN "T" ELSE IF never THEN "F" ELSE "U"

RECURSIVE S3(_, _)
S3(t, p) ==
    LET k == t[1] IN
    CASE k = "true" -> "T"
      [] k = "false" -> "F"
      [] k = "var" -> IF t[2] <= Len(p) THEN (IF p[t[2]] THEN "T" ELSE "F") ELSE "U"
      [] k = "not" -> Neg3(S3(t[2], p))
      [] k = "bin" -> Bin3(t[2], S3(t[3], p), S3(t[4], p))
      [] k = "andlist" -> (LET vs == {S3(t[2][i], p) : i \in DOMAIN t[2]} IN
                           IF "F" \in vs THEN "F" ELSE IF "U" \in vs THEN "U" ELSE "T")
      [] k = "ite" -> (LET c == S3(t[2], p) IN
                       IF c = "T" THEN S3(t[3], p) ELSE IF c = "F" THEN S3(t[4], p)
                       ELSE LET x == S3(t[3], p) y == S3(t[4], p) IN IF x = y /\ x # "U" THEN x ELSE "U")
      [] k = "cc" -> (LET vs == [i \in DOMAIN t[3] |-> S3(t[3][i], p)]
                          lo == Cardinality({i \in DOMAIN vs : vs[i] = "T"})
                          hi == lo + Cardinality({i \in DOMAIN vs : vs[i] = "U"})
                      IN Cmp3(t[2], lo, hi, t[4], t[4]))
      [] k = "cv" -> (LET ls == [i \in DOMAIN t[3] |-> S3(t[3][i], p)]
                          rs == [i \in DOMAIN t[4] |-> S3(t[4][i], p)]
                          lo == Cardinality({i \in DOMAIN ls : ls[i] = "T"})
                          hi == lo + Cardinality({i \in DOMAIN ls : ls[i] = "U"})
                          lo2 == Cardinality({i \in DOMAIN rs : rs[i] = "T"})
                          hi2 == lo2 + Cardinality({i \in DOMAIN rs : rs[i] = "U"})
                      IN Cmp3(t[2], lo, hi, lo2, hi2))

\* is the tree in the fragment the two evaluators understand?
RECURSIVE QFree(_)
QFree(t) ==
    LET k == t[1] IN
    CASE k \in {"true", "false", "var"} -> TRUE
      [] k = "not" -> QFree(t[2])
      [] k = "bin" -> QFree(t[3]) /\ QFree(t[4])
      [] k = "andlist" -> \A i \in DOMAIN t[2] : QFree(t[2][i])
      [] k = "ite" -> QFree(t[2]) /\ QFree(t[3]) /\ QFree(t[4])
      [] k = "cc" -> \A i \in DOMAIN t[3] : QFree(t[3][i])
      [] k = "cv" -> (\A i \in DOMAIN t[3] : QFree(t[3][i])) /\ (\A i \in DOMAIN t[4] : QFree(t[4][i]))
      [] OTHER -> FALSE

\* the conjuncts of a right-nested conjunction
RECURSIVE Conjuncts(_)
Conjuncts(t) ==
    IF t[1] = "andlist" THEN UNION {Conjuncts(t[2][i]) : i \in DOMAIN t[2]}
    ELSE IF t[1] = "bin" /\ t[2] = "and" THEN Conjuncts(t[3]) \cup Conjuncts(t[4]) ELSE {t}

---------------------------------------------------------------------------
(* C15: n queens.  Cell k (0-based) = row k \div n, column k % n.          *)
Row(k, n) == k \div n
Col(k, n) == k % n
Abs(x) == IF x < 0 THEN -x ELSE x
Attacks(c1, c2, n) ==
    c1 # c2 /\ (Row(c1, n) = Row(c2, n) \/ Col(c1, n) = Col(c2, n)
                \/ Abs(Row(c1, n) - Row(c2, n)) = Abs(Col(c1, n) - Col(c2, n)))

\* a set of cells is a solution: n queens, pairwise non-attacking
IsQueens(S, n) == Cardinality(S) = n /\ \A c1 \in S : \A c2 \in S : ~Attacks(c1, c2, n)

\* all solutions, row by row (each as the set of occupied cells)
RECURSIVE PlaceRows(_, _, _)
PlaceRows(r, n, partial) ==
    IF r = n THEN {partial}
    ELSE UNION {PlaceRows(r + 1, n, partial \cup {r * n + c}) :
                   c \in {c \in 0..(n - 1) : \A q \in partial : ~Attacks(q, r * n + c, n)}}
QueensSolutions(n) == PlaceRows(0, n, {})

CellsAsg(S, N) == [i \in 1..N |-> (i - 1) \in S]           \* variable i is cell i-1

---------------------------------------------------------------------------
(* C17: sudoku with root r: cells 0..r^4-1 row-major, digits 1..r^2;       *)
(* variable of (cell c, digit d) has index c * r^2 + d                     *)
Sq(r) == r * r
BoxOf(c, r) == <<(c \div Sq(r)) \div r, (c % Sq(r)) \div r>>
SameUnit(c1, c2, r) ==
    c1 # c2 /\ (c1 \div Sq(r) = c2 \div Sq(r) \/ c1 % Sq(r) = c2 % Sq(r) \/ BoxOf(c1, r) = BoxOf(c2, r))

\* g: sequence of digits (1..r^2) per cell (index cell+1); hints: sequence, 0 = blank
IsSudoku(g, r, hints) ==
    /\ Len(g) = Sq(r) * Sq(r)
    /\ \A i \in DOMAIN g : g[i] \in 1..Sq(r)
    /\ \A i \in DOMAIN g : \A j \in DOMAIN g : SameUnit(i - 1, j - 1, r) => g[i] # g[j]
    /\ \A i \in DOMAIN hints : hints[i] # 0 => g[i] = hints[i]

RECURSIVE FillCells(_, _, _)
FillCells(g, r, hints) ==
    IF Len(g) = Sq(r) * Sq(r) THEN {g}
    ELSE LET c == Len(g)
             ok == {d \in 1..Sq(r) :
                      /\ (c + 1 \in DOMAIN hints /\ hints[c + 1] # 0) => d = hints[c + 1]
                      /\ \A j \in DOMAIN g : SameUnit(c, j - 1, r) => g[j] # d}
         IN UNION {FillCells(Append(g, d), r, hints) : d \in ok}
SudokuSolutions(r, hints) == FillCells(<<>>, r, hints)

GridAsg(g, r) == [i \in 1..(Sq(r) * Sq(r) * Sq(r)) |-> g[((i - 1) \div Sq(r)) + 1] = ((i - 1) % Sq(r)) + 1]

---------------------------------------------------------------------------
(* C16: cliques.  V: set of vertex names, E: set of <<a, b>> records       *)
Conn(a, b, E, undirected) ==
    IF undirected THEN <<a, b>> \in E \/ <<b, a>> \in E ELSE <<a, b>> \in E /\ <<b, a>> \in E
IsClique(S, E, undirected) == \A a \in S : \A b \in S : a # b => Conn(a, b, E, undirected)
Cliques(V, E, undirected) == {S \in SUBSET V : IsClique(S, E, undirected)}
MaxCliques(V, E, undirected) ==
    LET C == Cliques(V, E, undirected) IN {S \in C : \A T \in C : Cardinality(T) <= Cardinality(S)}

---------------------------------------------------------------------------
(* C18: graphs                                                             *)
\* edges: sequence of <<a, b>>
GraphOK(nv, ne, undirected, complete, vnames, edges) ==
    LET want == IF complete THEN (IF undirected THEN (nv * (nv - 1)) \div 2 ELSE nv * (nv - 1)) ELSE ne
        ES == {edges[i] : i \in DOMAIN edges}
    IN /\ Len(edges) = want
       /\ Cardinality(ES) = Len(edges)                                   \* distinct
       /\ \A e \in ES : e[1] # e[2] /\ e[1] \in vnames /\ e[2] \in vnames
       /\ undirected => \A e \in ES : <<e[2], e[1]>> \notin ES
Feasible(nv, ne, undirected, complete) ==
    complete \/ ne <= (IF undirected THEN (nv * (nv - 1)) \div 2 ELSE nv * (nv - 1))

\* --convert: the input edge list, except that with -u an edge whose reverse was already kept is dropped
RECURSIVE ConvertSpec(_, _, _)
ConvertSpec(input, undirected, acc) ==
    IF input = <<>> THEN acc
    ELSE LET e == Head(input)
             dup == undirected /\ \E i \in DOMAIN acc : acc[i] = <<e[2], e[1]>>
         IN ConvertSpec(Tail(input), undirected, IF dup THEN acc ELSE Append(acc, e))

VerticesOf(edges) == {edges[i][1] : i \in DOMAIN edges} \cup {edges[i][2] : i \in DOMAIN edges}
KColourable(V, ES, k) ==
    \E c \in [V -> 0..(k - 1)] : \A e \in ES : e[1] # e[2] => c[e[1]] # c[e[2]]
=============================================================================
