----------------------------- MODULE MC_BddSet -----------------------------
(***************************************************************************)
(* Product of the abstract machine (BddSet) and the concrete one           *)
(* (BddSetImpl): every reachable pair of reference states x every next     *)
(* operation incl. self-aliasing operands.  Invariant Refines is the step  *)
(* simulation.  With Emit the transition table of the abstract machine is  *)
(* written for spec -> impl replay.                                        *)
(***************************************************************************)
EXTENDS BddSetImpl, BddSet, TLC, Json, IOUtils, SequencesExt

CONSTANT Emit

ASSUME Bits = NV

VARIABLES st,     \* abstract: [A |-> set, B |-> set]
          im,     \* concrete: [A |-> node, B |-> node]
          ret, iret
vars == <<st, im, ret, iret>>

IApply(m, o) ==
    CASE o.op = "insert"     -> <<[m EXCEPT ![o.x] = IInsert(m[o.x], o.e)], FALSE>>
      [] o.op = "contains"   -> <<m, IContains(m[o.x], o.e)>>
      [] o.op = "union"      -> <<[m EXCEPT ![o.x] = IUnion(m[o.x], m[o.y])], FALSE>>
      [] o.op = "intersect"  -> <<[m EXCEPT ![o.x] = IIntersect(m[o.x], m[o.y])], FALSE>>
      [] o.op = "complement" -> <<[m EXCEPT ![o.x] = IComplement(m[o.x], m[o.y])], FALSE>>
      [] o.op = "empty"      -> <<[m EXCEPT ![o.x] = IEmpty], FALSE>>
      [] o.op = "universe"   -> <<[m EXCEPT ![o.x] = IUniverse], FALSE>>

Init == st = InitSt /\ im = [A |-> F, B |-> F] /\ ret = FALSE /\ iret = FALSE

Do(o) ==
    LET a == Apply(st, o)
        c == IApply(im, o)
    IN st' = a[1] /\ ret' = a[2] /\ im' = c[1] /\ iret' = c[2]

Next == \E o \in Ops : Do(o)
Spec == Init /\ [][Next]_vars

Refines ==
    /\ Elems(im.A, Univ) = st.A /\ Elems(im.B, Univ) = st.B
    /\ WF(im.A) /\ WF(im.B)
    /\ ret = iret

\* a query leaves the state unchanged
QueriesPure == [][\A o \in Ops : (o.op = "contains" /\ Do(o)) => st' = st]_vars

---------------------------------------------------------------------------
SetSeq(S) == SetToSortSeq(S, <)
AllStates == [A : SUBSET Univ, B : SUBSET Univ]
OpSeq == SetToSeq(Ops)
Table ==
    [s \in AllStates |->
        [k \in 1..Len(OpSeq) |->
            LET o == OpSeq[k]
                a == Apply(s, o)
            IN [op |-> o.op, x |-> o.x, y |-> o.y, e |-> o.e,
                A2 |-> SetSeq(a[1].A), B2 |-> SetSeq(a[1].B), ret |-> a[2]]]]
StateSeq == SetToSeq(AllStates)
Written ==
    IF Emit
    THEN JsonSerialize(IOEnv.OUT,
            [bits |-> Bits,
             cases |-> [i \in 1..Len(StateSeq) |->
                          [A |-> SetSeq(StateSeq[i].A), B |-> SetSeq(StateSeq[i].B), t |-> Table[StateSeq[i]]]]])
    ELSE TRUE
ASSUME Written
=============================================================================
