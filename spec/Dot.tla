-------------------------------- MODULE Dot --------------------------------
(***************************************************************************)
(* C14: what the Graphviz exports must denote.  A DOT text is read (by the *)
(* orchestrator's small DOT reader) as                                     *)
(*    [nodes |-> <<  <<id, label>> .. >>, edges |-> << <<src, dst, label>> .. >>] *)
(* Decision-graph export (bdd_io.rs): labels "true"/"false" for the leaves,*)
(* the variable name for a test node, edge labels "T"/"F".                 *)
(* Parse-tree export (parser_io.rs): node labels are pre-parsed into       *)
(* tuples (<<"bin","and">>, <<"q","exists",<<names>>>>, <<"cc","atmost",n>>*)
(* ..), edge labels into <<"L">> <<"R">> <<"">> <<"i",k>> <<"Li",k>>       *)
(* <<"Ri",k>> <<"If">> <<"Then">> <<"Else">>.                              *)
(***************************************************************************)
EXTENDS Lang

Ids(g) == {g.nodes[i][1] : i \in DOMAIN g.nodes}
IdsUnique(g) == Cardinality(Ids(g)) = Len(g.nodes)
EdgesDeclared(g) == \A i \in DOMAIN g.edges : g.edges[i][1] \in Ids(g) /\ g.edges[i][2] \in Ids(g)
LabelOf(g, id) == g.nodes[CHOOSE i \in DOMAIN g.nodes : g.nodes[i][1] = id][2]
Roots(g) == {id \in Ids(g) : \A i \in DOMAIN g.edges : g.edges[i][2] # id}
Out(g, id, lab) == {g.edges[i][2] : i \in {j \in DOMAIN g.edges : g.edges[j][1] = id /\ g.edges[j][3] = lab}}

IsLeafLabel(l) == l \in {"true", "false"}

\* read the decision graph back as a diagram; a missing edge leads to the omitted leaf.
\* fuel guards against cycles in a malformed export
RECURSIVE UnfoldBdd(_, _, _, _)
UnfoldBdd(g, id, omitted, fuel) ==
    LET l == LabelOf(g, id) IN
    IF l = "true" THEN T
    ELSE IF l = "false" THEN F
    ELSE IF fuel = 0 \/ l \notin NameSet THEN <<-1>>
    ELSE LET ts == Out(g, id, "T")
             fs == Out(g, id, "F")
             Child(S) == IF S = {} THEN omitted
                         ELSE IF Cardinality(S) = 1 THEN UnfoldBdd(g, CHOOSE x \in S : TRUE, omitted, fuel - 1)
                         ELSE <<-1>>
         IN <<IdxOf(l), Child(ts), Child(fs)>>

TestNodes(g) == {id \in Ids(g) : ~IsLeafLabel(LabelOf(g, id))}

\* G: the function the exported diagram denotes; filter as given to BDDGraph::new
DotBddOK(g, G, filter) ==
    LET expected == Canon(ToIdxSet(G))
        omitted  == IF filter = "True" THEN F ELSE IF filter = "False" THEN T ELSE <<2>>
        leavesExpected == {n \in Sub(expected) : IsLeaf(n)} \ {omitted}
        leavesDeclared == {IF LabelOf(g, id) = "true" THEN T ELSE F : id \in Ids(g) \ TestNodes(g)}
    IN /\ IdsUnique(g)
       /\ EdgesDeclared(g)
       /\ \A i \in DOMAIN g.edges : g.edges[i][3] \in {"T", "F"} /\ ~IsLeafLabel(LabelOf(g, g.edges[i][1]))
       \* every distinct node exactly once
       /\ Cardinality(TestNodes(g)) = Cardinality({n \in Sub(expected) : ~IsLeaf(n)})
       /\ leavesDeclared = leavesExpected
       /\ Cardinality(Ids(g) \ TestNodes(g)) = Cardinality(leavesExpected)
       \* with filter Any nothing is omitted: every test has both edges
       /\ filter = "Any" => \A id \in TestNodes(g) : Cardinality(Out(g, id, "T")) = 1 /\ Cardinality(Out(g, id, "F")) = 1
       \* evaluates to the same function, node for node
       /\ IF IsLeaf(expected)
          THEN TestNodes(g) = {}
          ELSE /\ Cardinality(Roots(g) \cap TestNodes(g)) = 1
               /\ UnfoldBdd(g, CHOOSE r \in Roots(g) \cap TestNodes(g) : TRUE, omitted, NV + 1) = expected

---------------------------------------------------------------------------
RECURSIVE SubTerms(_)
SubTerms(t) ==
    LET k == t[1] IN
    {t} \cup
    CASE k \in {"true", "false", "var", "ref"} -> {}
      [] k = "not" -> SubTerms(t[2])
      [] k = "bin" -> SubTerms(t[3]) \cup SubTerms(t[4])
      [] k = "ite" -> SubTerms(t[2]) \cup SubTerms(t[3]) \cup SubTerms(t[4])
      [] k = "q"   -> SubTerms(t[4])
      [] k = "fix" -> SubTerms(t[4])
      [] k = "cc"  -> UNION {SubTerms(t[3][i]) : i \in DOMAIN t[3]}
      [] k = "cv"  -> UNION {SubTerms(t[3][i]) : i \in DOMAIN t[3]} \cup UNION {SubTerms(t[4][i]) : i \in DOMAIN t[4]}

One(S) == IF Cardinality(S) = 1 THEN CHOOSE x \in S : TRUE ELSE "?"
NumOut(g, id, tag) == Cardinality({i \in DOMAIN g.edges : g.edges[i][1] = id /\ g.edges[i][3][1] = tag})

RECURSIVE UnfoldTree(_, _, _)
UnfoldTree(g, id, fuel) ==
    IF fuel = 0 \/ id \notin Ids(g) THEN <<"bad">>
    ELSE
    LET l == LabelOf(g, id)
        k == l[1]
        C(lab) == UnfoldTree(g, One(Out(g, id, lab)), fuel - 1)
    IN CASE k = "var"   -> <<"var", l[2]>>
         [] k = "ref"   -> <<"ref", l[2]>>
         [] k = "const" -> IF l[2] THEN <<"true">> ELSE <<"false">>
         [] k = "not"   -> <<"not", C(<<"">>)>>
         [] k = "bin"   -> <<"bin", l[2], C(<<"L">>), C(<<"R">>)>>
         [] k = "ite"   -> <<"ite", C(<<"If">>), C(<<"Then">>), C(<<"Else">>)>>
         [] k = "q"     -> <<"q", l[2], l[3], C(<<"">>)>>
         [] k = "fix"   -> <<"fix", l[2], l[3], C(<<"">>)>>
         [] k = "cc"    -> <<"cc", l[2], [j \in 1..NumOut(g, id, "i") |-> C(<<"i", j - 1>>)], l[3]>>
         [] k = "cv"    -> <<"cv", l[2], [j \in 1..NumOut(g, id, "Li") |-> C(<<"Li", j - 1>>)],
                                          [j \in 1..NumOut(g, id, "Ri") |-> C(<<"Ri", j - 1>>)]>>
         [] OTHER -> <<"bad">>

RECURSIVE Depth(_)
Depth(t) ==
    LET k == t[1] IN
    1 + CASE k \in {"true", "false", "var", "ref"} -> 0
          [] k = "not" -> Depth(t[2])
          [] k = "bin" -> (IF Depth(t[3]) > Depth(t[4]) THEN Depth(t[3]) ELSE Depth(t[4]))
          [] k = "ite" -> (LET a == Depth(t[2]) b == Depth(t[3]) c == Depth(t[4]) IN
                           IF a >= b /\ a >= c THEN a ELSE IF b >= c THEN b ELSE c)
          [] k \in {"q", "fix"} -> Depth(t[4])
          [] OTHER -> 8

DotTreeOK(g, tree) ==
    /\ IdsUnique(g)
    /\ EdgesDeclared(g)
    /\ Len(g.nodes) = Cardinality(SubTerms(tree))          \* identical sub-terms are one node
    /\ Cardinality(Roots(g)) = 1
    /\ UnfoldTree(g, CHOOSE r \in Roots(g) : TRUE, Len(g.nodes) + 2) = tree
=============================================================================
