------------------------------- MODULE Extras -------------------------------
(***************************************************************************)
(* Behaviour of rsbdd outside the twenty listed properties, specified so   *)
(* that the specification keeps growing with the system:                   *)
(*   - TruthTableEntry::from_str / Display (filter spellings)              *)
(*   - BDD::node_list, BDDEnv::duplicates, find, clean                     *)
(*   - From<BDD<NamedSymbol>> for BDD<usize>                               *)
(*   - ParsedFormula::name2var / usize2var                                 *)
(*   - named definitions: define / get_definition and reference evaluation *)
(*     (semantics: Lang!SemC, case "ref")                                  *)
(*   - the bdd! macro (= parse + eval of its stringified tokens)           *)
(*   - argument / file errors of the binaries (Err exit, no output)        *)
(* Not modelled: plot.rs (floating-point text for gnuplot) and the timing  *)
(* report of -b.                                                           *)
(***************************************************************************)
EXTENDS Lang, Syntax

\* truth_table.rs: matches(): the accepted spellings; anything else is an error
TTEFromStr(s) ==
    CASE s \in {"true", "True", "t", "T", "1"}   -> "True"
      [] s \in {"false", "False", "f", "F", "0"} -> "False"
      [] s \in {"any", "Any", "a", "A", "*"}     -> "Any"
      [] OTHER -> "error"
TTEDisplay(v) == v          \* Display prints the variant name

\* bdd.rs:53-68: in-order list (true subtree, the node, false subtree), leaves included, with repetitions
RECURSIVE NodeList(_)
NodeList(n) == IF IsLeaf(n) THEN <<n>> ELSE NodeList(n[2]) \o <<n>> \o NodeList(n[3])

\* bdd.rs:71-83: the same structure with every symbol replaced by its id
RECURSIVE MapVars(_, _)
MapVars(n, ids) == IF IsLeaf(n) THEN n ELSE <<ids[n[1]], MapVars(n[2], ids), MapVars(n[3], ids)>>

\* parser.rs:398-409
Name2Var(vars, name) == IF \E i \in DOMAIN vars : vars[i] = name THEN CHOOSE i \in DOMAIN vars : vars[i] = name ELSE 0

\* definitions: defs is a sequence of <<name, "bdd", truth table>> / <<name, "syntax", tree>>
RECURSIVE DefsRho(_, _)
DefsRho(defs, rho) ==
    IF defs = <<>> THEN rho
    ELSE LET e == Head(defs)
             v == IF e[2] = "bdd" THEN <<"bdd", SetOfTable(e[3])>> ELSE <<"syntax", e[3]>>
         IN DefsRho(Tail(defs), Bind(rho, "ref:" \o e[1], v))
=============================================================================
