----------------------------- MODULE Trace_Cli -----------------------------
(***************************************************************************)
(* impl -> spec for the command line tool and the Graphviz exports.        *)
(*                                                                         *)
(* "run": one execution of the real rsbdd binary.  Logged: the formula     *)
(*    text and the ordering file text as character arrays, options, exit   *)
(*    status, parsed stdout (header, rows, -v lines, -r names), a digest of *)
(*    stdout and a key identifying the configuration without input channel *)
(*    and repetition count; plus the harness's view (names by id, tree     *)
(*    renamed n1..nk) which is CHECKED here against Syntax/Cli: the spec   *)
(*    re-tokenizes and re-parses the texts itself.                         *)
(* "dotbdd" / "dottree": a Graphviz export read back (library level).      *)
(***************************************************************************)
EXTENDS Cli, Dot, TLC, Json, IOUtils

NS8 == <<"n1", "n2", "n3", "n4", "n5", "n6", "n7", "n8">>
NS7 == <<"n1", "n2", "n3", "n4", "n5", "n6", "n7">>
NS6 == <<"n1", "n2", "n3", "n4", "n5", "n6">>
NS5 == <<"n1", "n2", "n3", "n4", "n5">>
NS4 == <<"n1", "n2", "n3", "n4">>
NS3 == <<"n1", "n2", "n3">>
NS2 == <<"n1", "n2">>
NS1 == <<"n1">>

Rec == ndJsonDeserialize(IOEnv.TRACE)

VARIABLES l, seen      \* seen: configuration key |-> stdout digest
vars == <<l, seen>>

Rows(r) == [i \in DOMAIN r.rows |-> <<r.rows[i][1], r.rows[i][2]>>]

RunVerdict(r) ==
    IF r.exit \notin {0, 1} THEN "abnormal exit (panic or signal)"
    ELSE
    LET otk == IF r.has_order THEN Tokenize(r.order_chars) ELSE [ok |-> TRUE, toks |-> <<>>, loose |-> FALSE]
        ftk == Tokenize(r.formula_chars)
        p   == IF ftk.ok THEN Parse(ftk.toks) ELSE [ok |-> FALSE, t |-> <<>>]
        shouldFail == ~otk.ok \/ ~p.ok
    IN IF (otk.loose \/ ftk.loose) /\ r.exit = 1 THEN (IF r.stdout_empty THEN "" ELSE "output printed before an error exit")
       ELSE IF shouldFail # (r.exit = 1) THEN (IF shouldFail THEN "exit 0 although the input is not a formula" ELSE "error exit on a valid input")
       ELSE IF shouldFail THEN (IF r.stdout_empty THEN "" ELSE "output printed before an error exit")
       ELSE
       \* The variable order is an OBSERVABLE of the tool (what -r exports; r.names is that list completed to a
       \* permutation), constrained by what the properties demand of it: every name of the text exactly once (C09)
       \* and the names listed in the ordering file in the order of the file (C11).  Cli!FormulaVars is the order
       \* the pinned implementation happens to derive; it is not demanded.
       LET names == r.names
           fnames == VarNames(ftk.toks)
           listed == UniqueSeq(VarNames(otk.toks), <<>>)
           PermOK(q) == Len(q) = Len(fnames) /\ SeqRange(q) = SeqRange(fnames)
           ListedOK(q) == SelectSeq(q, LAMBDA n : n \in SeqRange(listed)) = SelectSeq(listed, LAMBDA n : n \in SeqRange(q))
           ren   == [n \in SeqRange(names) |-> NameSeq[PosIn(names, n)]]
           tree  == RenameTree(p.t, ren)
           m     == SemC(tree, <<>>)
           G     == m.s
           hdr   == r.header
       IN IF Len(names) > NV THEN "harness: too many names for this group"
          ELSE IF ~PermOK(r.lib_names) THEN "variable ids: the variable list is not every name of the text exactly once"
          ELSE IF ~ListedOK(r.lib_names) THEN "variable ids: the names listed in the ordering are not ordered as listed"
          ELSE IF ~PermOK(names) \/ r.order_export # [i \in 1..Len(names) |-> NameSeq[i]]
               THEN "-r does not list every variable of the text exactly once"
          ELSE IF ~ListedOK(names) THEN "-r / variable order: the names listed in the ordering file are not ordered as in the file"
          ELSE IF \E i \in DOMAIN r.export_extras : r.export_extras[i] \notin SeqRange(listed)
               THEN "-r lists a name that is neither in the formula nor in the ordering file"
          ELSE IF tree # r.ast THEN "parse tree differs from the grammar's"
          ELSE IF ~m.ok THEN "specification: fixed point does not converge within the fuel"
          ELSE IF r.has_table /\ ~HeaderOK(hdr, tree) THEN "header is not the free variables in variable order"
          ELSE IF r.has_table /\ r.model /\ r.retain = "Any" /\ ~ModelTableOK(hdr, Rows(r), G, r.filter) THEN "-m: table is not one satisfying row of the formula"
          \* -m together with -c: the pipeline retains first, then extracts the model; base_rows is the table the tool
          \* itself printed for the same run without -m (the retained diagram), which must be sound w.r.t. G, and the
          \* model must be one satisfying row of THAT diagram
          ELSE IF r.has_table /\ r.model /\ r.retain # "Any" /\ r.has_base /\
                  ~(LET base == [i \in DOMAIN r.base_rows |-> <<r.base_rows[i][1], r.base_rows[i][2]>>]
                        G2   == TableFunction(hdr, base, "Any")
                    IN RetainTableOK(hdr, base, G, "Any", r.retain) /\ ModelTableOK(hdr, Rows(r), G2, r.filter))
               THEN "-m with -c: table is not one satisfying row of the retained diagram"
          ELSE IF r.has_table /\ ~r.model /\ r.retain # "Any" /\ ~RetainTableOK(hdr, Rows(r), G, r.filter, r.retain)
               THEN "-c: table is not sound in the direction of the filter"
          ELSE IF r.has_table /\ ~r.model /\ r.retain = "Any" /\ ~TableOK(hdr, Rows(r), G, r.filter)
               THEN "table is not a faithful partition for the formula"
          ELSE IF r.has_vars /\ ~r.model /\ r.retain = "Any" /\ ~VarsOK(SortedNames(FV(tree)), r.vlines, G)
               THEN "-v does not list exactly the satisfying rows"
          ELSE IF r.has_dot /\ ~r.model /\ r.retain = "Any" /\ ~DotBddOK(r.dot, G, r.filter)
               THEN "-d: exported graph does not denote the diagram"
          \* -m / -c together with -v or -d: all outputs of one run describe the same (model / retained) diagram,
          \* the one the table of that run prints
          ELSE IF r.has_vars /\ r.has_table /\ (r.model \/ r.retain # "Any") /\
                  ~VarsOK(SortedNames(FV(tree)), r.vlines, TableFunction(hdr, Rows(r), IF r.filter = "False" THEN "False" ELSE "Any"))
               THEN (IF r.model THEN "-m" ELSE "-c") \o " with -v: the lines are not the satisfying rows of the diagram the table prints"
          ELSE IF r.has_dot /\ r.has_table /\ (r.model \/ r.retain # "Any") /\
                  ~DotBddOK(r.dot, TableFunction(hdr, Rows(r), IF r.filter = "False" THEN "False" ELSE "Any"), r.filter)
               THEN (IF r.model THEN "-m" ELSE "-c") \o " with -d: the exported graph is not the diagram the table prints"
          ELSE IF r.has_ptree /\ ~DotTreeOK(r.ptree, tree) THEN "-p: exported graph is not the parse tree"
          ELSE IF r.has_api /\ SetOfTable(r.api_tt) # G THEN "API with NamedSymbol ordering: different function"
          ELSE IF r.has_api /\ ~r.api_ok THEN "API with NamedSymbol ordering: diagram not ordered / to_free_index not total"
          ELSE IF r.key \in DOMAIN seen /\ seen[r.key] # r.digest THEN "output differs between input channels / repetition counts / re-imported order"
          ELSE ""

DotVerdict(r) ==
    CASE r.k = "dotbdd"  -> IF DotBddOK(r.dot, SetOfTable(r.tt), r.filter) THEN "" ELSE "exported graph does not denote the diagram"
      [] r.k = "dottree" -> IF DotTreeOK(r.ptree, r.tree) THEN "" ELSE "exported graph is not the parse tree"

Init == l = 1 /\ seen = <<>>

Step ==
    /\ l <= Len(Rec)
    /\ l' = l + 1
    /\ LET r == Rec[l]
           v == IF r.k = "run" THEN RunVerdict(r) ELSE IF r.k \in {"dotbdd", "dottree"} THEN DotVerdict(r) ELSE "panic / unknown record"
       IN /\ (IF v = "" THEN TRUE ELSE PrintT("REJECT|" \o ToString(l) \o "|" \o v))
          /\ seen' = IF r.k = "run" /\ v = "" /\ r.exit = 0 /\ r.key \notin DOMAIN seen
                     THEN [k \in DOMAIN seen \cup {r.key} |-> IF k = r.key THEN r.digest ELSE seen[k]]
                     ELSE seen

Next == Step
Spec == Init /\ [][Next]_vars

Consumed ==
    \/ TLCGet("stats").diameter - 1 = Len(Rec)
    \/ (PrintT(<<"INCOMPLETE", TLCGet("stats").diameter>>) /\ FALSE)
=============================================================================
