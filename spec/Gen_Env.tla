------------------------------ MODULE Gen_Env ------------------------------
(***************************************************************************)
(* spec -> impl: Env.tla with a history variable, run with -simulate.      *)
(* Operands and parameters are drawn at random (Pick <- PickRand), the     *)
(* first NV steps create the variables.  A behaviour that reached Depth    *)
(* steps is printed once by the Finish action (one JSON line).  Operands   *)
(* are referred to by the 1-based step that first produced their id        *)
(* (0 = the false leaf, -1 = the true leaf, if no step produced them).     *)
(***************************************************************************)
EXTENDS Env, Json

CONSTANT Depth

VARIABLES hist,   \* sequence of steps taken
          prod,   \* id |-> number of the step that first produced it (0 = none)
          done
gvars == <<heap, uniq, handles, last, hist, prod, done>>

PickRand(X) == IF X = {} THEN {} ELSE {RandomElement(IF Len(hist) >= 0 THEN X ELSE {})}

GInit == Init /\ hist = <<>> /\ prod = <<>> /\ done = FALSE

StepRef(p, i) == IF i \in DOMAIN p /\ p[i] # 0 THEN p[i] ELSE IF i = FId THEN 0 ELSE -1

Record ==
    LET k  == Len(hist) + 1
        p2 == [i \in 1..Len(heap') |->
                 IF i \in DOMAIN prod /\ prod[i] # 0 THEN prod[i]
                 ELSE IF i = last'.res THEN k ELSE 0]
    IN /\ prod' = p2
       /\ hist' = Append(hist, [op   |-> last'.op,
                                args |-> [j \in DOMAIN last'.args |-> StepRef(prod, last'.args[j])],
                                par  |-> last'.par,
                                spec |-> last'.spec,
                                size |-> Len(heap')])
       /\ done' = FALSE

\* the first NV steps introduce the variables, in a random order
Intro == Len(hist) < NV /\ (\E v \in PickRand(Vars \ {hist[i].par[1] : i \in DOMAIN hist}) :
                              Deliver(VarH(heap, v), "var", <<>>, <<v>>, Var(v))) /\ Record
Work  == Len(hist) >= NV /\ Len(hist) < Depth /\ Next /\ last'.op # "drop" /\ Record
Finish == /\ Len(hist) = Depth /\ ~done /\ done' = TRUE
          /\ PrintT(<<"BEH", ToJson(hist)>>)
          /\ UNCHANGED <<heap, uniq, handles, last, hist, prod>>

GNext == Intro \/ Work \/ Finish
GSpec == GInit /\ [][GNext]_gvars
=============================================================================
