---------------------------- MODULE Trace_Puzzle ----------------------------
(***************************************************************************)
(* impl -> spec for the generators: one record per real execution of       *)
(* max_clique_gen / random_graph_gen, and the structural / soundness       *)
(* records of n_queens_gen and sudoku_gen for sizes beyond exact           *)
(* model-set comparison (MC_Models).                                       *)
(***************************************************************************)
EXTENDS Lang, Puzzles, TLC, Json, IOUtils

NS1 == <<"n1">>
NS2 == <<"n1", "n2">>
NS3 == <<"n1", "n2", "n3">>
NS4 == <<"n1", "n2", "n3", "n4">>
NS5 == <<"n1", "n2", "n3", "n4", "n5">>
NS6 == <<"n1", "n2", "n3", "n4", "n5", "n6">>
NS7 == <<"n1", "n2", "n3", "n4", "n5", "n6", "n7">>
NS8 == <<"n1", "n2", "n3", "n4", "n5", "n6", "n7", "n8">>
NS9 == <<"n1", "n2", "n3", "n4", "n5", "n6", "n7", "n8", "n9">>
NS10 == <<"n1", "n2", "n3", "n4", "n5", "n6", "n7", "n8", "n9", "n10">>

Rec == ndJsonDeserialize(IOEnv.TRACE)

VARIABLE l
vars == <<l>>

Pairs(q) == {<<q[i][1], q[i][2]>> : i \in DOMAIN q}
AsPairs(q) == [i \in DOMAIN q |-> <<q[i][1], q[i][2]>>]

---------------------------------------------------------------------------
CliqueVerdict(r) ==
    LET V  == SeqRange(r.vertices)
        E  == Pairs(r.edges)
        m  == SemC(r.ast, <<>>)
        Mentioned == {r.vmap[i][1] : i \in {j \in DOMAIN r.vmap : r.vmap[j][2] # ""}}
        NameOfV(v) == r.vmap[CHOOSE i \in DOMAIN r.vmap : r.vmap[i][1] = v][2]
        ModelSets == {{v \in Mentioned : s[NameOfV(v)]} : s \in m.s}
        FormulaSets == {S \in SUBSET V : (S \cap Mentioned) \in ModelSets}
        expected == IF r.all THEN Cliques(V, E, r.undirected) ELSE MaxCliques(V, E, r.undirected)
    IN IF ~m.ok THEN "specification: does not converge"
       ELSE IF ~(SeqRange(r.free) \subseteq {NameOfV(v) : v \in Mentioned}) THEN "a variable that is not a vertex is free in the formula"
       ELSE IF FV(r.ast) # SeqRange(r.free) THEN "free variables differ"
       ELSE IF FormulaSets # expected
            THEN (IF r.all THEN "models are not exactly the cliques" ELSE "models are not exactly the maximum cliques")
       ELSE ""

---------------------------------------------------------------------------
VName(i) == "v" \o ToString(i)

GraphVerdict(r) ==
    LET vnames == {VName(i) : i \in 0..(r.nv - 1)}
        feasible == Feasible(r.nv, r.ne, r.undirected, r.complete)
    IN IF feasible
       THEN (IF r.exit # 0 THEN "a request that can be met was refused"
             ELSE IF ~GraphOK(r.nv, r.ne, r.undirected, r.complete, vnames, AsPairs(r.edges)) THEN "output is not the graph that was asked for"
             ELSE "")
       ELSE (IF r.exit = 0 THEN "an infeasible request was not refused (truncated output)"
             ELSE IF ~r.stdout_empty THEN "edges printed for a refused request" ELSE "")

ConvertVerdict(r) ==
    IF AsPairs(r.edges) = ConvertSpec(AsPairs(r.input), r.undirected, <<>>) THEN "" ELSE "--convert does not reproduce the edge list"

ColorsVerdict(r) ==
    LET G   == ConvertSpec(AsPairs(r.input), r.undirected, <<>>)
        V   == VerticesOf(G)
        k   == r.colors
        ES  == Pairs(r.edges)
        Node(v, c) == v \o "_c" \o ToString(c)
        Adj(x, y) == <<x, y>> \in ES \/ <<y, x>> \in ES
        nodesOK == \A e \in ES : \A x \in {e[1], e[2]} : \E v \in V : \E c \in 0..(k - 1) : x = Node(v, c)
        covering == \E c \in [V -> 0..(k - 1)] : \A v \in V : \A w \in V : v # w => Adj(Node(v, c[v]), Node(w, c[w]))
    IN IF ~nodesOK THEN "--colors: output mentions a vertex that is not a (vertex, colour) pair"
       ELSE IF covering # KColourable(V, {G[i] : i \in DOMAIN G}, k) THEN "--colors: covering clique exists <=> k-colourable violated"
       ELSE ""

---------------------------------------------------------------------------
ListsOf(ast) == Conjuncts(ast) \ {<<"true">>}
VarsOfList(L) == {L[3][i][2] : i \in DOMAIN L[3]}       \* variable indices (cell + 1)

QueensCoverVerdict(r) ==
    LET n  == r.n
        NN == n * n
        Ls == ListsOf(r.ast)
        one(L) == L[4] = 1 /\ L[2] \in {"atmost", "exactly"}
        cells(L) == {i - 1 : i \in VarsOfList(L)}
        rowCells(rw) == {rw * n + c : c \in 0..(n - 1)}
        colCells(cl) == {rw * n + cl : rw \in 0..(n - 1)}
    IN IF Len(r.names) # NN \/ \E k \in 0..(NN - 1) : r.names[k + 1] # "v_" \o ToString(k) THEN "variable names are not v_0 .. v_(n*n-1)"
       \* the structural argument below applies to formulas that are conjunctions of '<= 1' / '= 1' lists over
       \* variables; another (possibly equally correct) shape is not judged here -- no alarm, only a note
       ELSE IF \E L \in Ls : L[1] # "cc" THEN (IF PrintT("NOTE|queens_cover not applicable: other formula shape") THEN "" ELSE "")
       ELSE IF \E L \in Ls : \E i \in DOMAIN L[3] : L[3][i][1] # "var" THEN (IF PrintT("NOTE|queens_cover not applicable: other formula shape") THEN "" ELSE "")
       ELSE IF \E L \in Ls : ~one(L) THEN (IF PrintT("NOTE|queens_cover not applicable: other list kinds") THEN "" ELSE "")
       \* no list over-constrains: its cells attack each other pairwise (so every solution satisfies it)
       ELSE IF \E L \in Ls : \E c1 \in cells(L) : \E c2 \in cells(L) : c1 # c2 /\ ~Attacks(c1, c2, n) THEN "a list joins cells that do not attack each other"
       ELSE IF \E L \in Ls : L[2] = "exactly" /\ cells(L) \notin ({rowCells(x) : x \in 0..(n - 1)} \cup {colCells(x) : x \in 0..(n - 1)})
            THEN "an '= 1' list is not a full row or column"
       \* every row / column must hold a queen
       ELSE IF \E x \in 0..(n - 1) : ~\E L \in Ls : L[2] = "exactly" /\ cells(L) = rowCells(x) THEN "a row has no '= 1' list"
       ELSE IF \E x \in 0..(n - 1) : ~\E L \in Ls : L[2] = "exactly" /\ cells(L) = colCells(x) THEN "a column has no '= 1' list"
       \* attack-pair coverage: no model places two attacking queens
       ELSE IF \E c1 \in 0..(NN - 1) : \E c2 \in (c1 + 1)..(NN - 1) : Attacks(c1, c2, n) /\ ~\E L \in Ls : {c1, c2} \subseteq cells(L)
            THEN "an attacking pair of cells is not covered by any list"
       ELSE IF r.sample = 0 /\ \E S \in QueensSolutions(n) : ~EvalFull(r.ast, CellsAsg(S, NN)) THEN "a solution does not satisfy the formula"
       ELSE ""

SudokuSoundVerdict(r) ==
    IF ~QFree(r.ast) THEN "formula is outside the quantifier-free fragment"
    ELSE IF \E i \in DOMAIN r.good : ~IsSudoku(r.good[i], r.r, r.hints) THEN "harness: reference grid is not a solution"
    ELSE IF \E i \in DOMAIN r.good : ~EvalFull(r.ast, GridAsg(r.good[i], r.r)) THEN "a solved grid does not satisfy the formula"
    ELSE IF \E i \in DOMAIN r.bad : IsSudoku(r.bad[i], r.r, r.hints) THEN "harness: near miss is a solution"
    ELSE IF \E i \in DOMAIN r.bad : EvalFull(r.ast, GridAsg(r.bad[i], r.r)) THEN "a near miss satisfies the formula"
    ELSE ""

\* C17 beyond exact model-set comparison: the formula is the exact-cover encoding -- hints plus one '= 1'
\* list per cell, per (row, digit), per (column, digit) and per (box, digit), nothing else.  For this shape the
\* models are exactly the completed grids (each list is one sudoku rule).
SudokuCoverVerdict(r) ==
    LET sq == Sq(r.r)
        cells == 0..(sq * sq - 1)
        V(c, dgt) == c * sq + dgt                         \* variable index of (cell, digit)
        Ls == ListsOf(r.ast)
        lists == {L \in Ls : L[1] = "cc"}
        units == {VarsOfList(L) : L \in lists}
        cellUnit(c) == {V(c, dgt) : dgt \in 1..sq}
        rowUnit(i, dgt) == {V(i * sq + j, dgt) : j \in 0..(sq - 1)}
        colUnit(j, dgt) == {V(i * sq + j, dgt) : i \in 0..(sq - 1)}
        boxUnit(b, dgt) == {V(c, dgt) : c \in {x \in cells : BoxOf(x, r.r) = b}}
        boxes == {BoxOf(c, r.r) : c \in cells}
        expected == {cellUnit(c) : c \in cells}
                    \cup {rowUnit(i, dgt) : i \in 0..(sq - 1), dgt \in 1..sq}
                    \cup {colUnit(j, dgt) : j \in 0..(sq - 1), dgt \in 1..sq}
                    \cup {boxUnit(b, dgt) : b \in boxes, dgt \in 1..sq}
        hintVars == {V(i - 1, r.hints[i]) : i \in {j \in DOMAIN r.hints : r.hints[j] # 0}}
        singles == {L[2] : L \in {M \in Ls : M[1] = "var"}}
    IN \* only the exact-cover shape is judged structurally (another correct encoding raises no alarm here)
       IF \E L \in Ls : L[1] \notin {"cc", "var"} THEN (IF PrintT("NOTE|sudoku_cover not applicable: other formula shape") THEN "" ELSE "")
       ELSE IF \E L \in lists : L[2] # "exactly" \/ L[4] # 1 \/ \E i \in DOMAIN L[3] : L[3][i][1] # "var"
            THEN (IF PrintT("NOTE|sudoku_cover not applicable: other list kinds") THEN "" ELSE "")
       ELSE IF \E U \in expected : U \notin units THEN "a cell / row / column / box rule is missing"
       ELSE IF \E U \in units : U \notin expected THEN "a list is not a cell / row / column / box rule"
       ELSE IF singles # hintVars THEN "the givens are not exactly the digits of the puzzle text"
       ELSE ""

Verdict(r) ==
    CASE r.k = "clique" -> CliqueVerdict(r)
      [] r.k = "sudoku_cover" -> SudokuCoverVerdict(r)
      [] r.k = "graph" -> GraphVerdict(r)
      [] r.k = "convert" -> ConvertVerdict(r)
      [] r.k = "colors" -> ColorsVerdict(r)
      [] r.k = "queens_cover" -> QueensCoverVerdict(r)
      [] r.k = "sudoku_sound" -> SudokuSoundVerdict(r)
      [] OTHER -> "unknown record"

Init == l = 1
Step ==
    /\ l <= Len(Rec)
    /\ l' = l + 1
    /\ LET v == Verdict(Rec[l]) IN IF v = "" THEN TRUE ELSE PrintT("REJECT|" \o ToString(l) \o "|" \o v)
Next == Step
Spec == Init /\ [][Next]_vars

Consumed ==
    \/ TLCGet("stats").diameter - 1 = Len(Rec)
    \/ (PrintT(<<"INCOMPLETE", TLCGet("stats").diameter>>) /\ FALSE)
=============================================================================
