-------------------------------- MODULE Cli --------------------------------
(***************************************************************************)
(* The command line pipeline of src/bin/rsbdd.rs and what a correct run    *)
(* may print.                                                              *)
(*                                                                         *)
(*   ReadOrdering -> Tokenize -> Parse -> FreeVars -> Eval (x N)           *)
(*     -> Retain (-c) -> Model (-m) -> ExportOrder (-r) -> Table (-t)      *)
(*     -> Vars (-v) -> Dot (-d) / ParseTreeDot (-p)                        *)
(*                                                                         *)
(* Order part: how names get their variable ids (ordering file first, in   *)
(* file order, then first appearance in the formula).                      *)
(* Output part: ACCEPTANCE PREDICATES -- any table that is a faithful      *)
(* partition is accepted, not one canonical print-out; row order, row      *)
(* granularity, DOT node names and statement order are free.               *)
(* Model part: RowsOf / VarLinesOf transcribe print_truth_table_recursive  *)
(* and print_true_vars_recursive; MC_Cli checks that they satisfy the      *)
(* predicates for every configuration of a bounded matrix.                 *)
(***************************************************************************)
EXTENDS Lang, Syntax

---------------------------------------------------------------------------
(* variable order                                                          *)

RECURSIVE UniqueSeq(_, _)
UniqueSeq(q, acc) ==
    IF q = <<>> THEN acc
    ELSE UniqueSeq(Tail(q), IF \E i \in DOMAIN acc : acc[i] = Head(q) THEN acc ELSE Append(acc, Head(q)))

\* extract_vars: the names of the Var tokens, once each, in order of first appearance
VarNames(toks) ==
    LET vs == SelectSeq(toks, LAMBDA t : t[1] = "var")
    IN UniqueSeq([i \in DOMAIN vs |-> vs[i][2]], <<>>)

\* id order of all names known after reading the ordering (a token list) and the formula
IdOrder(orderToks, formulaToks) == UniqueSeq(VarNames(orderToks) \o VarNames(formulaToks), <<>>)

\* ParsedFormula.vars: the formula's names in id order
FormulaVars(orderToks, formulaToks) ==
    LET inF == SeqRange(VarNames(formulaToks))
    IN SelectSeq(IdOrder(orderToks, formulaToks), LAMBDA n : n \in inF)

PosIn(q, x) == CHOOSE i \in DOMAIN q : q[i] = x

\* rename the names of a tree: name |-> ren[name]
RECURSIVE RenameTree(_, _)
RenameTree(t, ren) ==
    LET k == t[1] IN
    CASE k \in {"true", "false", "ref"} -> t
      [] k = "var" -> <<"var", ren[t[2]]>>
      [] k = "not" -> <<"not", RenameTree(t[2], ren)>>
      [] k = "bin" -> <<"bin", t[2], RenameTree(t[3], ren), RenameTree(t[4], ren)>>
      [] k = "ite" -> <<"ite", RenameTree(t[2], ren), RenameTree(t[3], ren), RenameTree(t[4], ren)>>
      [] k = "q"   -> <<"q", t[2], [i \in DOMAIN t[3] |-> ren[t[3][i]]], RenameTree(t[4], ren)>>
      [] k = "cc"  -> <<"cc", t[2], [i \in DOMAIN t[3] |-> RenameTree(t[3][i], ren)], t[4]>>
      [] k = "cv"  -> <<"cv", t[2], [i \in DOMAIN t[3] |-> RenameTree(t[3][i], ren)],
                                     [i \in DOMAIN t[4] |-> RenameTree(t[4][i], ren)]>>
      [] k = "fix" -> <<"fix", ren[t[2]], t[3], RenameTree(t[4], ren)>>

---------------------------------------------------------------------------
(* tables                                                                  *)
(* header: sequence of names; a row: <<cells, result>> with cells a        *)
(* sequence over {"True","False","Any"} parallel to header, result Boolean *)

Cover(header, cells) ==
    {s \in NAsg : \A i \in DOMAIN header :
        /\ cells[i] = "True"  => s[header[i]]
        /\ cells[i] = "False" => ~s[header[i]]}

NoDup(q) == \A i \in DOMAIN q : \A j \in DOMAIN q : q[i] = q[j] => i = j

RowsWellFormed(header, rows) ==
    /\ NoDup(header)           \* so every row covers at least one assignment
    /\ \A i \in DOMAIN rows :
        /\ Len(rows[i][1]) = Len(header)
        /\ \A j \in DOMAIN rows[i][1] : rows[i][1][j] \in {"True", "False", "Any"}

Covers(header, cells, s) ==
    \A i \in DOMAIN header :
        /\ cells[i] = "True"  => s[header[i]]
        /\ cells[i] = "False" => ~s[header[i]]

\* C10: the rows are a faithful partition for the function G under the row filter.  Stated per assignment (which
\* rows cover it) rather than per pair of rows, so that tables with hundreds of rows are checked in linear time:
\* at most one row covers an assignment (pairwise disjoint), its result column is the function's value, and the
\* covered assignments are all / the satisfying / the falsifying ones.
TableOK(header, rows, G, filter) ==
    /\ RowsWellFormed(header, rows)
    /\ \A s \in NAsg :
          LET hit == {i \in DOMAIN rows : Covers(header, rows[i][1], s)} IN
          /\ Cardinality(hit) <= 1
          /\ \A i \in hit : rows[i][2] = (s \in G)
          /\ CASE filter = "Any"   -> hit # {}
               [] filter = "True"  -> (hit # {}) = (s \in G)
               [] filter = "False" -> (hit # {}) = (s \notin G)

\* the header lists the free variables in variable order
HeaderOK(header, tree) == header = SortedNames(FV(tree))

\* the function a table denotes (filter Any / True: union of the True rows; False: complement of
\* the False rows)
TableFunction(header, rows, filter) ==
    IF filter = "False"
    THEN NAsg \ UNION {Cover(header, rows[i][1]) : i \in {j \in DOMAIN rows : ~rows[j][2]}}
    ELSE UNION {Cover(header, rows[i][1]) : i \in {j \in DOMAIN rows : rows[j][2]}}

\* -v: one line per satisfying row: <<names that are true, names that are free (starred)>>
VarsOK(header, lines, G) ==
    LET CoversLine(ln, s) == \A i \in DOMAIN header :
                               IF header[i] \in SeqRange(ln[1]) THEN s[header[i]]
                               ELSE IF header[i] \in SeqRange(ln[2]) THEN TRUE ELSE ~s[header[i]]
    IN /\ \A i \in DOMAIN lines : SeqRange(lines[i][1]) \cup SeqRange(lines[i][2]) \subseteq SeqRange(header)
       /\ \A s \in NAsg :
             LET hit == {i \in DOMAIN lines : CoversLine(lines[i], s)} IN
             Cardinality(hit) = (IF s \in G THEN 1 ELSE 0)

\* C07 at the command line: with -m the diagram is one satisfying cube of G (or false)
ModelTableOK(header, rows, G, filter) ==
    LET Gm == TableFunction(header, rows, IF filter = "False" THEN "False" ELSE "Any")
        trues == {i \in DOMAIN rows : rows[i][2]}
    IN /\ TableOK(header, rows, Gm, filter)
       /\ Gm \subseteq G
       /\ (Gm = {}) <=> (G = {})
       /\ filter # "False" => Cardinality(trues) = (IF G = {} THEN 0 ELSE 1)

\* C20 at the command line: with -c the diagram is implied by / implies G
RetainTableOK(header, rows, G, filter, retain) ==
    LET Gr == TableFunction(header, rows, IF filter = "False" THEN "False" ELSE "Any")
    IN /\ TableOK(header, rows, Gr, filter)
       /\ retain = "True"  => G \subseteq Gr
       /\ retain = "False" => Gr \subseteq G
       /\ retain = "Any"   => Gr = G

---------------------------------------------------------------------------
(* the printing algorithm of the tool, transcribed (model)                 *)

\* print_truth_table_recursive: false subtree first, then true subtree
RECURSIVE RowsOf(_, _, _, _)
RowsOf(n, cells, header, filter) ==
    IF IsLeaf(n)
    THEN IF filter = "Any" \/ (filter = "True" /\ n = T) \/ (filter = "False" /\ n = F)
         THEN << <<cells, n = T>> >> ELSE <<>>
    ELSE LET col == PosIn(header, NameSeq[n[1]]) IN
         RowsOf(n[3], [cells EXCEPT ![col] = "False"], header, filter)
         \o RowsOf(n[2], [cells EXCEPT ![col] = "True"], header, filter)

TableOfDiagram(n, header, filter) == RowsOf(n, [i \in DOMAIN header |-> "Any"], header, filter)

\* print_true_vars_recursive
VarLinesOf(n, header) ==
    LET rows == TableOfDiagram(n, header, "True") IN
    [i \in DOMAIN rows |->
        << SelectSeq(header, LAMBDA h : rows[i][1][PosIn(header, h)] = "True"),
           SelectSeq(header, LAMBDA h : rows[i][1][PosIn(header, h)] = "Any") >>]
=============================================================================
