------------------------------- MODULE Syntax -------------------------------
(***************************************************************************)
(* The rsbdd formula language: tokenizer and grammar (src/parser.rs).      *)
(*                                                                         *)
(* Text  = sequence of one-character strings.                              *)
(* Token = tuple with the kind first: <<"and">>, <<"var", name>>,          *)
(*         <<"num", n>>, <<"ref", name>>, <<"eof">> ...                    *)
(* Tree  = tuple with the kind first:                                      *)
(*   <<"true">> <<"false">> <<"var", n>> <<"ref", n>> <<"not", f>>         *)
(*   <<"bin", op, l, r>>      op \in BinOpNames                            *)
(*   <<"ite", c, t, e>>                                                    *)
(*   <<"q", "exists"|"forall", <<names>>, f>>                              *)
(*   <<"cc", cmp, <<fs>>, n>>  cmp \in CmpNames, n a number                *)
(*   <<"cv", cmp, <<ls>>, <<rs>>>>                                         *)
(*   <<"fix", name, init, f>>  init = TRUE for gfp/nu, FALSE for lfp/mu    *)
(*                                                                         *)
(* Numbers: TLC integers are 32 bit, so a literal is carried as            *)
(* Min(value, NumCap); literals that do not fit the implementation's       *)
(* usize (> 18446744073709551615) are marked "loose" (rejecting them, as    *)
(* the pinned code does, or reading them as that number are both fine);    *)
(* digit runs containing a non-ASCII digit are not numbers: rejected.      *)
(***************************************************************************)
EXTENDS Naturals, Integers, Sequences, FiniteSets

NumCap == 1000000

---------------------------------------------------------------------------
(* alphabet                                                                *)
Lower == {"a","b","c","d","e","f","g","h","i","j","k","l","m","n","o","p","q","r","s","t","u","v","w","x","y","z"}
Upper == {"A","B","C","D","E","F","G","H","I","J","K","L","M","N","O","P","Q","R","S","T","U","V","W","X","Y","Z"}
AsciiDigit == {"0","1","2","3","4","5","6","7","8","9"}
\* representatives of the non-ASCII classes of the regex: a letter (\w), a digit (\d and \w),
\* and a character that is neither
NonAsciiLetter == {"é"}
NonAsciiDigit  == {"٣"}
DigitCh == AsciiDigit \cup NonAsciiDigit                       \* regex \d
WordCh  == Lower \cup Upper \cup DigitCh \cup NonAsciiLetter \cup {"_", "'"}   \* regex [\w']

DigitVal(c) ==
    CASE c = "0" -> 0 [] c = "1" -> 1 [] c = "2" -> 2 [] c = "3" -> 3 [] c = "4" -> 4
      [] c = "5" -> 5 [] c = "6" -> 6 [] c = "7" -> 7 [] c = "8" -> 8 [] c = "9" -> 9

---------------------------------------------------------------------------
(* tokenizer: at every position the alternatives of the regex in order     *)
(*   symbol | \d+ | {word+} | word+ | "comment" ;  anything else is skipped *)

\* the symbol alternation, in the order of the regex (leftmost-first)
SymTab == <<
    << <<"!">>, "not" >>,          << <<"&">>, "and" >>,      << <<"=", ">">>, "implies" >>,
    << <<"-">>, "not" >>,          << <<"<", "=", ">">>, "iff" >>, << <<"<", "=">>, "impliesinv" >>,
    << <<"|">>, "or" >>,           << <<"^">>, "xor" >>,      << <<"#">>, "hash" >>,
    << <<"*">>, "and" >>,          << <<"+">>, "or" >>,       << <<">", "=">>, "geq" >>,
    << <<"=">>, "eq" >>,           << <<">">>, "gt" >>,       << <<"<">>, "lt" >>,
    << <<"[">>, "[" >>,            << <<"]">>, "]" >>,        << <<",">>, "," >>,
    << <<"(">>, "(" >>,            << <<")">>, ")" >> >>

MatchesAt(cs, p, lex) ==
    /\ p + Len(lex) - 1 <= Len(cs)
    /\ \A i \in 1..Len(lex) : cs[p + i - 1] = lex[i]

\* index of the first symbol alternative matching at p, 0 if none
SymAt(cs, p) ==
    LET hits == {k \in 1..Len(SymTab) : MatchesAt(cs, p, SymTab[k][1])}
    IN IF hits = {} THEN 0 ELSE CHOOSE k \in hits : \A j \in hits : k <= j

\* end (exclusive) of the maximal run of characters of class C starting at p
RECURSIVE RunEnd(_, _, _)
RunEnd(cs, p, C) == IF p <= Len(cs) /\ cs[p] \in C THEN RunEnd(cs, p + 1, C) ELSE p

RECURSIVE Concat(_, _, _)
Concat(cs, p, q) == IF p >= q THEN "" ELSE cs[p] \o Concat(cs, p + 1, q)

\* keyword / alias table for identifiers
KeywordTok(w) ==
    CASE w = "false" -> <<"false">>   [] w = "true" -> <<"true">>     [] w = "not" -> <<"not">>
      [] w = "and" -> <<"and">>       [] w = "or" -> <<"or">>         [] w = "xor" -> <<"xor">>
      [] w = "nor" -> <<"nor">>       [] w = "nand" -> <<"nand">>
      [] w = "implies" -> <<"implies">> [] w = "in" -> <<"implies">>
      [] w = "iff" -> <<"iff">>       [] w = "eq" -> <<"iff">>
      [] w = "exists" -> <<"exists">> [] w = "any" -> <<"exists">>
      [] w = "forall" -> <<"forall">> [] w = "all" -> <<"forall">>
      [] w = "if" -> <<"if">>         [] w = "then" -> <<"then">>     [] w = "else" -> <<"else">>
      [] w = "gfp" -> <<"gfp">>       [] w = "nu" -> <<"gfp">>
      [] w = "lfp" -> <<"lfp">>       [] w = "mu" -> <<"lfp">>
      [] OTHER -> <<"var", w>>

\* value of an ASCII digit run, capped; "overflow" when it exceeds usize::MAX
UsizeMax == <<1,8,4,4,6,7,4,4,0,7,3,7,0,9,5,5,1,6,1,5>>
RECURSIVE StripZeros(_)
StripZeros(ds) == IF Len(ds) > 1 /\ ds[1] = 0 THEN StripZeros(Tail(ds)) ELSE ds
RECURSIVE LexLeq(_, _)       \* digit sequences of equal length
LexLeq(a, b) == IF a = <<>> THEN TRUE
                ELSE IF a[1] < b[1] THEN TRUE ELSE IF a[1] > b[1] THEN FALSE ELSE LexLeq(Tail(a), Tail(b))
FitsUsize(ds) == LET d == StripZeros(ds) IN Len(d) < 20 \/ (Len(d) = 20 /\ LexLeq(d, UsizeMax))
RECURSIVE CappedVal(_, _)
CappedVal(ds, acc) ==
    IF ds = <<>> THEN acc
    ELSE LET a2 == acc * 10 + ds[1] IN CappedVal(Tail(ds), IF a2 > NumCap THEN NumCap ELSE a2)

\* Tokenize returns [ok, toks, loose]; ok = FALSE is the tokenizer's error (a digit run that is not a number).
\* A literal beyond the implementation's usize is outside what the properties pin down: the pinned code reports an
\* error, a saturating reader would accept it with the same meaning (every list is shorter).  Such a literal is
\* tokenized as NumCap and the result is marked loose: the trace specifications then accept either outcome.
RECURSIVE TokFrom(_, _, _, _)
TokFrom(cs, p, acc, loose) ==
    IF p > Len(cs) THEN [ok |-> TRUE, toks |-> Append(acc, <<"eof">>), loose |-> loose]
    ELSE LET k == SymAt(cs, p) IN
    IF k # 0 THEN TokFrom(cs, p + Len(SymTab[k][1]), Append(acc, <<SymTab[k][2]>>), loose)
    ELSE IF cs[p] \in DigitCh THEN
        LET q == RunEnd(cs, p, DigitCh) IN
        IF \E i \in p..(q - 1) : cs[i] \notin AsciiDigit THEN [ok |-> FALSE, toks |-> acc, loose |-> loose]
        ELSE LET ds == [i \in 1..(q - p) |-> DigitVal(cs[p + i - 1])] IN
             IF ~FitsUsize(ds) THEN TokFrom(cs, q, Append(acc, <<"num", NumCap>>), TRUE)
             ELSE TokFrom(cs, q, Append(acc, <<"num", CappedVal(ds, 0)>>), loose)
    ELSE IF cs[p] = "{" /\ RunEnd(cs, p + 1, WordCh) > p + 1
                       /\ RunEnd(cs, p + 1, WordCh) <= Len(cs) /\ cs[RunEnd(cs, p + 1, WordCh)] = "}" THEN
        LET q == RunEnd(cs, p + 1, WordCh) IN
        TokFrom(cs, q + 1, Append(acc, <<"ref", Concat(cs, p + 1, q)>>), loose)
    ELSE IF cs[p] \in WordCh THEN
        LET q == RunEnd(cs, p, WordCh) IN
        TokFrom(cs, q, Append(acc, KeywordTok(Concat(cs, p, q))), loose)
    ELSE IF cs[p] = "\"" THEN
        LET q == RunEnd(cs, p + 1, {c \in {cs[i] : i \in 1..Len(cs)} : c # "\""}) IN
        IF q <= Len(cs) THEN TokFrom(cs, q + 1, acc, loose)      \* closed comment: skipped
        ELSE TokFrom(cs, p + 1, acc, loose)                      \* no closing quote: the quote is a separator
    ELSE TokFrom(cs, p + 1, acc, loose)                          \* any other character separates

Tokenize(cs) == TokFrom(cs, 1, <<>>, FALSE)

---------------------------------------------------------------------------
(* grammar (no precedence, binary operators right associative)             *)
(*   formula := sub EOF                                                    *)
(*   sub     := simple [ binop sub ]                                       *)
(*   simple  := '(' sub ')' | list cmp (list | NUM) | true | false | REF   *)
(*            | VAR | NOT simple | (EXISTS|FORALL) varlist '#' sub         *)
(*            | (LFP|GFP) VAR '#' sub | IF sub THEN sub ELSE sub           *)
(*   list    := '[' [ sub (',' sub)* [','] ] ']'                           *)
(*   varlist := [ VAR (',' VAR)* [','] ]                                   *)

BinOpNames == {"and", "or", "xor", "nor", "nand", "implies", "impliesinv", "iff"}
CmpNames   == {"exactly", "atmost", "atleast", "lessthan", "morethan"}

CmpOfTok(k) ==
    CASE k = "eq" -> "exactly" [] k = "impliesinv" -> "atmost" [] k = "geq" -> "atleast"
      [] k = "lt" -> "lessthan" [] k = "gt" -> "morethan" [] OTHER -> "none"

Kind(ts, p) == IF p <= Len(ts) THEN ts[p][1] ELSE "none"

Fail == [ok |-> FALSE, t |-> <<>>, p |-> 0]
Ok(t, p) == [ok |-> TRUE, t |-> t, p |-> p]

RECURSIVE PSub(_, _), PSimple(_, _), PItems(_, _, _), PVars(_, _, _)

\* list items after '[': returns [ok, t (sequence of trees), p (position after ']')]
PItems(ts, p, acc) ==
    IF Kind(ts, p) = "]" THEN Ok(acc, p + 1)
    ELSE LET s == PSub(ts, p) IN
         IF ~s.ok THEN Fail
         ELSE IF Kind(ts, s.p) = "," THEN PItems(ts, s.p + 1, Append(acc, s.t))
         ELSE IF Kind(ts, s.p) = "]" THEN Ok(Append(acc, s.t), s.p + 1)
         ELSE Fail

\* variable names up to (not including) '#'
PVars(ts, p, acc) ==
    IF Kind(ts, p) = "hash" THEN Ok(acc, p)
    ELSE IF Kind(ts, p) # "var" THEN Fail
    ELSE IF Kind(ts, p + 1) = "," THEN PVars(ts, p + 2, Append(acc, ts[p][2]))
    ELSE Ok(Append(acc, ts[p][2]), p + 1)

PSimple(ts, p) ==
    LET k == Kind(ts, p) IN
    CASE k = "(" ->
           (LET s == PSub(ts, p + 1) IN
            IF s.ok /\ Kind(ts, s.p) = ")" THEN Ok(s.t, s.p + 1) ELSE Fail)
      [] k = "[" ->
           (LET l == PItems(ts, p + 1, <<>>) IN
            IF ~l.ok THEN Fail
            ELSE LET cmp == CmpOfTok(Kind(ts, l.p)) IN
                 IF cmp = "none" THEN Fail
                 ELSE IF Kind(ts, l.p + 1) = "[" THEN
                      (LET r == PItems(ts, l.p + 2, <<>>) IN
                       IF r.ok THEN Ok(<<"cv", cmp, l.t, r.t>>, r.p) ELSE Fail)
                 ELSE IF Kind(ts, l.p + 1) = "num" THEN Ok(<<"cc", cmp, l.t, ts[l.p + 1][2]>>, l.p + 2)
                 ELSE Fail)
      [] k = "false" -> Ok(<<"false">>, p + 1)
      [] k = "true"  -> Ok(<<"true">>, p + 1)
      [] k = "ref"   -> Ok(<<"ref", ts[p][2]>>, p + 1)
      [] k = "var"   -> Ok(<<"var", ts[p][2]>>, p + 1)
      [] k = "not"   ->
           (LET s == PSimple(ts, p + 1) IN IF s.ok THEN Ok(<<"not", s.t>>, s.p) ELSE Fail)
      [] k \in {"exists", "forall"} ->
           (LET v == PVars(ts, p + 1, <<>>) IN
            IF ~v.ok \/ Kind(ts, v.p) # "hash" THEN Fail
            ELSE LET s == PSub(ts, v.p + 1) IN
                 IF s.ok THEN Ok(<<"q", k, v.t, s.t>>, s.p) ELSE Fail)
      [] k \in {"gfp", "lfp"} ->
           (IF Kind(ts, p + 1) # "var" \/ Kind(ts, p + 2) # "hash" THEN Fail
            ELSE LET s == PSub(ts, p + 3) IN
                 IF s.ok THEN Ok(<<"fix", ts[p + 1][2], k = "gfp", s.t>>, s.p) ELSE Fail)
      [] k = "if" ->
           (LET c == PSub(ts, p + 1) IN
            IF ~c.ok \/ Kind(ts, c.p) # "then" THEN Fail
            ELSE LET t == PSub(ts, c.p + 1) IN
                 IF ~t.ok \/ Kind(ts, t.p) # "else" THEN Fail
                 ELSE LET e == PSub(ts, t.p + 1) IN
                      IF e.ok THEN Ok(<<"ite", c.t, t.t, e.t>>, e.p) ELSE Fail)
      [] OTHER -> Fail

PSub(ts, p) ==
    LET l == PSimple(ts, p) IN
    IF ~l.ok THEN Fail
    ELSE IF Kind(ts, l.p) \in BinOpNames THEN
         (LET r == PSub(ts, l.p + 1) IN
          IF r.ok THEN Ok(<<"bin", Kind(ts, l.p), l.t, r.t>>, r.p) ELSE Fail)
    ELSE l

\* a token sequence (ending in <<"eof">>) is a sentence iff sub consumes everything before eof
Parse(ts) ==
    LET s == PSub(ts, 1) IN
    IF s.ok /\ Kind(ts, s.p) = "eof" /\ s.p = Len(ts) THEN [ok |-> TRUE, t |-> s.t] ELSE [ok |-> FALSE, t |-> <<>>]

ParseText(cs) ==
    LET tk == Tokenize(cs) IN
    IF tk.ok THEN Parse(tk.toks) ELSE [ok |-> FALSE, t |-> <<>>]

---------------------------------------------------------------------------
(* printers: tree -> token sequence (without the final eof)                *)

TokOfCmp(c) ==
    CASE c = "exactly" -> <<"eq">> [] c = "atmost" -> <<"impliesinv">> [] c = "atleast" -> <<"geq">>
      [] c = "lessthan" -> <<"lt">> [] c = "morethan" -> <<"gt">>

RECURSIVE CommaVars(_)
CommaVars(vs) ==
    IF vs = <<>> THEN <<>>
    ELSE IF Len(vs) = 1 THEN << <<"var", vs[1]>> >>
    ELSE << <<"var", vs[1]>>, <<",">> >> \o CommaVars(Tail(vs))

\* does the printed form of t end in a construct that extends as far right as possible?
RECURSIVE RightOpen(_)
RightOpen(t) ==
    CASE t[1] \in {"q", "fix", "ite", "bin"} -> TRUE
      [] t[1] = "not" -> RightOpen(t[2])
      [] OTHER -> FALSE

RECURSIVE Unparse(_, _), PrintItems(_, _)
\* loose = TRUE : parentheses only where the grammar needs them
\* loose = FALSE: every composite operand is parenthesised
Paren(ts) == << <<"(">> >> \o ts \o << <<")">> >>
Atomic(t) == t[1] \in {"true", "false", "var", "ref", "cc", "cv"}

PrintItems(fs, loose) ==
    IF fs = <<>> THEN <<>>
    ELSE IF Len(fs) = 1 THEN Unparse(fs[1], loose)
    ELSE Unparse(fs[1], loose) \o << <<",">> >> \o PrintItems(Tail(fs), loose)

Unparse(t, loose) ==
    LET Child(c, needs) == IF (loose /\ ~needs) \/ (~loose /\ Atomic(c)) THEN Unparse(c, loose) ELSE Paren(Unparse(c, loose))
    IN
    CASE t[1] = "true"  -> << <<"true">> >>
      [] t[1] = "false" -> << <<"false">> >>
      [] t[1] = "var"   -> << <<"var", t[2]>> >>
      [] t[1] = "ref"   -> << <<"ref", t[2]>> >>
      [] t[1] = "not"   -> << <<"not">> >> \o Child(t[2], t[2][1] = "bin")
      [] t[1] = "bin"   -> Child(t[3], RightOpen(t[3])) \o << <<t[2]>> >> \o Child(t[4], FALSE)
      [] t[1] = "ite"   -> << <<"if">> >> \o Child(t[2], FALSE) \o << <<"then">> >> \o Child(t[3], FALSE)
                              \o << <<"else">> >> \o Child(t[4], FALSE)
      [] t[1] = "q"     -> << <<t[2]>> >> \o CommaVars(t[3]) \o << <<"hash">> >> \o Child(t[4], FALSE)
      [] t[1] = "fix"   -> << <<IF t[3] THEN "gfp" ELSE "lfp">>, <<"var", t[2]>>, <<"hash">> >> \o Child(t[4], FALSE)
      [] t[1] = "cc"    -> << <<"[">> >> \o PrintItems(t[3], loose) \o << <<"]">>, TokOfCmp(t[2]), <<"num", t[4]>> >>
      [] t[1] = "cv"    -> << <<"[">> >> \o PrintItems(t[3], loose) \o << <<"]">>, TokOfCmp(t[2]), <<"[">> >>
                              \o PrintItems(t[4], loose) \o << <<"]">> >>

Sentence(t, loose) == Unparse(t, loose) \o << <<"eof">> >>
=============================================================================
