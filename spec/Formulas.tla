------------------------------ MODULE Formulas ------------------------------
(***************************************************************************)
(* The bounded formula universe shared by MC_Lang and MC_Cli: atoms, and   *)
(* Wrap(g) = all formulas obtained from g by one more constructor whose    *)
(* other operands are atoms ("spine" formulas).                            *)
(***************************************************************************)
EXTENDS Lang, Syntax

CONSTANT FixVars

\* name orders selectable from a cfg file (cfg files cannot contain tuples): NameSeq <- NS_abX
NS_abX == <<"a", "b", "X">>
NS_aX  == <<"a", "X">>
NS_Xa  == <<"X", "a">>
NS_aXb == <<"a", "X", "b">>
NS_abXc == <<"a", "b", "X", "c">>
NS_aXY  == <<"a", "X", "Y">>
NS_aYXZ == <<"a", "Y", "X", "Z">>

VarAtoms == {<<"var", NameSeq[i]>> : i \in DOMAIN NameSeq}
Atoms == {<<"true">>, <<"false">>} \cup VarAtoms
\* the atoms used as "other operand" of a wrapper
Side == VarAtoms \cup {<<"true">>}
A1 == <<"var", NameSeq[1]>>
AL == <<"var", NameSeq[Len(NameSeq)]>>

VLists == {<<>>, <<NameSeq[1]>>, <<NameSeq[Len(NameSeq)]>>, <<NameSeq[1], NameSeq[1]>>}
              \cup {<<NameSeq[i], NameSeq[j]>> : i \in DOMAIN NameSeq, j \in DOMAIN NameSeq}

Wrap(g) ==
    {<<"not", g>>}
    \cup {<<"bin", op, g, s>> : op \in BinOpNames, s \in Side}
    \cup {<<"bin", op, s, g>> : op \in BinOpNames, s \in Side}
    \cup {<<"ite", g, s, t>> : s \in Side, t \in {A1, <<"false">>}}
    \cup {<<"ite", s, g, t>> : s \in VarAtoms, t \in {AL, <<"true">>}}
    \cup {<<"ite", s, t, g>> : s \in VarAtoms, t \in {AL, <<"false">>}}
    \cup {<<"q", q, vs, g>> : q \in {"exists", "forall"}, vs \in VLists}
    \cup {<<"fix", x, init, g>> : x \in FixVars, init \in BOOLEAN}
    \cup {<<"cc", cmp, l, n>> : cmp \in CmpNames, n \in 0..3,
                                l \in {<<g>>, <<g, A1>>, <<AL, g>>, <<g, g>>, <<A1, g, AL>>}}
    \cup {<<"cc", cmp, <<g>>, NumCap>> : cmp \in CmpNames}      \* a literal beyond every list length
    \cup {<<"cv", cmp, p[1], p[2]>> : cmp \in CmpNames,
                                p \in {<< <<g>>, <<>> >>, << <<>>, <<g>> >>, << <<g>>, <<A1>> >>,
                                       << <<AL>>, <<g>> >>, << <<g, A1>>, <<AL>> >>, << <<A1, AL>>, <<g, g>> >>}}

Roots ==
    Atoms \cup {<<"ref", "r">>}
          \cup {<<"cc", cmp, <<>>, n>> : cmp \in CmpNames, n \in {0, 1}}
          \cup {<<"cv", cmp, <<>>, <<>>>> : cmp \in {"exactly", "lessthan"}}

=============================================================================
