---------------------------- MODULE Trace_Extras ----------------------------
(* impl -> spec for the behaviour specified in Extras.tla (records are independent). *)
EXTENDS Extras, TLC, Json, IOUtils

NS3 == <<"n1", "n2", "n3">>
NS4 == <<"n1", "n2", "n3", "n4">>

Rec == ndJsonDeserialize(IOEnv.TRACE)

VARIABLE l
vars == <<l>>

Verdict(r) ==
    CASE r.k = "tte" ->
           IF r.res # TTEFromStr(r.s) THEN "TruthTableEntry::from_str differs"
           ELSE IF r.res # "error" /\ r.disp # TTEDisplay(r.res) THEN "TruthTableEntry Display differs" ELSE ""
      [] r.k = "node_list" ->
           IF r.list # NodeList(r.f) THEN "node_list differs" ELSE ""
      [] r.k = "convert" ->
           IF r.r # MapVars(r.f, r.ids) THEN "From<BDD<NamedSymbol>> for BDD<usize> changed the structure" ELSE ""
      [] r.k = "duplicates" ->
           IF r.n # 0 THEN "duplicates() of an environment-built diagram is not 0" ELSE ""
      [] r.k = "find" ->
           IF r.same /\ r.clean_same THEN "" ELSE "find / clean did not return the interned node"
      [] r.k = "name2var" ->
           IF r.res # Name2Var(r.vars, r.name) THEN "name2var differs"
           ELSE IF r.back # r.vars THEN "usize2var does not enumerate vars" ELSE ""
      [] r.k = "defs" ->
           LET m == SemC(r.ast, DefsRho(r.defs, <<>>)) IN
           IF ~m.ok THEN "specification: does not converge"
           ELSE IF SetOfTable(r.tt) # m.s THEN "evaluation with named definitions differs from the semantics"
           ELSE IF ~r.get_ok THEN "get_definition does not return what define stored" ELSE ""
      [] r.k = "macro" ->
           LET m == SemC(r.ast, <<>>) IN
           IF SetOfTable(r.tt) # m.s THEN "bdd! macro result differs from the meaning of its text" ELSE ""
      [] r.k = "cli_err" ->
           IF r.exit # 1 THEN "an unusable argument / file did not end in an error exit"
           ELSE IF ~r.stdout_empty THEN "output printed before an error exit" ELSE ""
      [] OTHER -> "panic / unknown record"

Init == l = 1
Step ==
    /\ l <= Len(Rec)
    /\ l' = l + 1
    /\ LET v == Verdict(Rec[l]) IN IF v = "" THEN TRUE ELSE PrintT("REJECT|" \o ToString(l) \o "|" \o v)
Next == Step
Spec == Init /\ [][Next]_vars

Consumed ==
    \/ TLCGet("stats").diameter - 1 = Len(Rec)
    \/ (PrintT(<<"INCOMPLETE", TLCGet("stats").diameter>>) /\ FALSE)
=============================================================================
