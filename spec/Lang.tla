-------------------------------- MODULE Lang --------------------------------
(***************************************************************************)
(* Meaning of the rsbdd formula language.                                  *)
(*                                                                         *)
(*  Sem(f, rho)  denotational semantics: the set of assignments (functions *)
(*               NameSet -> BOOLEAN) under which f is true.  Written from  *)
(*               the README / property statements; never mentions BDDs.    *)
(*  FV(f)        free names;  AllNamesOf(f) every name of the tree.        *)
(*  Ev(f)        model of the evaluator eval_recursive + replace_var       *)
(*               (parser.rs:140-215, 318-396) on top of Bdd.tla.           *)
(*                                                                         *)
(* Trees are those of Syntax.tla plus <<"subtree", node>> (only inside the *)
(* evaluator model).  NameSeq fixes the variable order: NameSeq[i] is      *)
(* variable i of Bdd.tla (NV = Len(NameSeq)).                              *)
(***************************************************************************)
EXTENDS Bdd

CONSTANT NameSeq          \* sequence of distinct names, in variable order

NameSet == {NameSeq[i] : i \in DOMAIN NameSeq}
IdxOf(n) == CHOOSE i \in DOMAIN NameSeq : NameSeq[i] = n

NAsg == [NameSet -> BOOLEAN]

\* fuel for fixed-point iteration: a monotone iteration stabilises within |NAsg| + 1 steps;
\* formulas that need more are classified as non-convergent and are not executed
Fuel == 2 * Cardinality(NAsg) + 2

NFlipTo(s, n, b) == [s EXCEPT ![n] = b]
NAgree(s, s2, VS) == \A n \in NameSet \ VS : s[n] = s2[n]
NExists(VS, S) == {s \in NAsg : \E s2 \in S : NAgree(s, s2, VS)}
NForall(VS, S) == {s \in NAsg : \A s2 \in NAsg : NAgree(s, s2, VS) => s2 \in S}

CmpConstSem(cmp, c, n) ==
    CASE cmp = "exactly"  -> c = n
      [] cmp = "atmost"   -> c <= n
      [] cmp = "atleast"  -> c >= n
      [] cmp = "lessthan" -> c < n
      [] cmp = "morethan" -> c > n

Bind(rho, x, r) == [y \in (DOMAIN rho) \cup {x} |-> IF y = x THEN r ELSE rho[y]]
Unbind(rho, VS) == [y \in (DOMAIN rho) \ VS |-> rho[y]]

CountIn(sets, s) == Cardinality({i \in DOMAIN sets : s \in sets[i]})

\* SemC(f, rho) = [s |-> set of satisfying assignments, ok |-> every fixed-point iteration met while
\* evaluating f stabilised within the fuel].  One pass computes both.
RECURSIVE SemC(_, _), FixIterC(_, _, _, _, _)

R(set, ok) == [s |-> set, ok |-> ok]

SemC(f, rho) ==
    LET k == f[1] IN
    CASE k = "true"  -> R(NAsg, TRUE)
      [] k = "false" -> R({}, TRUE)
      [] k = "var"   -> R(IF f[2] \in DOMAIN rho THEN rho[f[2]] ELSE {s \in NAsg : s[f[2]]}, TRUE)
      [] k = "ref"   -> \* a named definition (API: ParsedFormula::define), bound in rho under "ref:" \o name as
                        \* <<"bdd", set>> or <<"syntax", tree>> (evaluated in the current context, like the
                        \* implementation's substitution through references); an undefined reference is false
                        (LET key == "ref:" \o f[2] IN
                         IF key \in DOMAIN rho
                         THEN (IF rho[key][1] = "bdd" THEN R(rho[key][2], TRUE) ELSE SemC(rho[key][2], rho))
                         ELSE R({}, TRUE))
      [] k = "not"   -> (LET a == SemC(f[2], rho) IN R(NAsg \ a.s, a.ok))
      [] k = "bin"   -> (LET L == SemC(f[3], rho)
                             Rr == SemC(f[4], rho)
                         IN R({s \in NAsg : BinSem(f[2], s \in L.s, s \in Rr.s)}, L.ok /\ Rr.ok))
      [] k = "ite"   -> (LET C == SemC(f[2], rho)
                             A == SemC(f[3], rho)
                             B == SemC(f[4], rho)
                         IN R({s \in NAsg : IF s \in C.s THEN s \in A.s ELSE s \in B.s}, C.ok /\ A.ok /\ B.ok))
      [] k = "q"     -> (LET VS == SeqRange(f[3])
                             inner == SemC(f[4], Unbind(rho, VS))   \* the binder shadows fixed-point names
                         IN R(IF f[2] = "exists" THEN NExists(VS, inner.s) ELSE NForall(VS, inner.s), inner.ok))
      [] k = "cc"    -> (LET rs == [i \in DOMAIN f[3] |-> SemC(f[3][i], rho)]
                             sets == [i \in DOMAIN f[3] |-> rs[i].s]
                         IN R({s \in NAsg : CmpConstSem(f[2], CountIn(sets, s), f[4])}, \A i \in DOMAIN rs : rs[i].ok))
      [] k = "cv"    -> (LET lr == [i \in DOMAIN f[3] |-> SemC(f[3][i], rho)]
                             rr == [i \in DOMAIN f[4] |-> SemC(f[4][i], rho)]
                             ls == [i \in DOMAIN f[3] |-> lr[i].s]
                             rs == [i \in DOMAIN f[4] |-> rr[i].s]
                         IN R({s \in NAsg : CmpConstSem(f[2], CountIn(ls, s), CountIn(rs, s))},
                              (\A i \in DOMAIN lr : lr[i].ok) /\ (\A i \in DOMAIN rr : rr[i].ok)))
      [] k = "fix"   -> FixIterC(f[2], f[4], rho, IF f[3] THEN NAsg ELSE {}, Fuel)

\* Kleene iteration as the implementation performs it: first r of  init, T(init), .. with T(r) = r
FixIterC(x, body, rho, r, fuel) ==
    LET r2 == SemC(body, Bind(rho, x, r)) IN
    IF ~r2.ok THEN R(r, FALSE)
    ELSE IF r2.s = r THEN R(r, TRUE)
    ELSE IF fuel = 0 THEN R(r, FALSE)
    ELSE FixIterC(x, body, rho, r2.s, fuel - 1)

Sem(f, rho) == SemC(f, rho).s
Conv(f, rho) == SemC(f, rho).ok

\* n-fold application with a given budget (used by the C06 theorems)
RECURSIVE FixIter(_, _, _, _, _)
FixIter(x, body, rho, r, fuel) ==
    LET r2 == Sem(body, Bind(rho, x, r)) IN
    IF r2 = r \/ fuel = 0 THEN r ELSE FixIter(x, body, rho, r2, fuel - 1)

Meaning(f)   == Sem(f, <<>>)
Converges(f) == Conv(f, <<>>)

---------------------------------------------------------------------------
(* names                                                                   *)
RECURSIVE FV(_), NamesOf(_), HasRef(_)
UnionOver(fs, Op(_)) == UNION {Op(fs[i]) : i \in DOMAIN fs}

FV(f) ==
    LET k == f[1] IN
    CASE k \in {"true", "false", "ref", "subtree"} -> {}
      [] k = "var" -> {f[2]}
      [] k = "not" -> FV(f[2])
      [] k = "bin" -> FV(f[3]) \cup FV(f[4])
      [] k = "ite" -> FV(f[2]) \cup FV(f[3]) \cup FV(f[4])
      [] k = "q"   -> FV(f[4]) \ SeqRange(f[3])
      [] k = "cc"  -> UNION {FV(f[3][i]) : i \in DOMAIN f[3]}
      [] k = "cv"  -> UNION {FV(f[3][i]) : i \in DOMAIN f[3]} \cup UNION {FV(f[4][i]) : i \in DOMAIN f[4]}
      [] k = "fix" -> FV(f[4]) \ {f[2]}

\* every name of the text: occurrences, binder lists, fixed-point binders
NamesOf(f) ==
    LET k == f[1] IN
    CASE k \in {"true", "false", "ref", "subtree"} -> {}
      [] k = "var" -> {f[2]}
      [] k = "not" -> NamesOf(f[2])
      [] k = "bin" -> NamesOf(f[3]) \cup NamesOf(f[4])
      [] k = "ite" -> NamesOf(f[2]) \cup NamesOf(f[3]) \cup NamesOf(f[4])
      [] k = "q"   -> NamesOf(f[4]) \cup SeqRange(f[3])
      [] k = "cc"  -> UNION {NamesOf(f[3][i]) : i \in DOMAIN f[3]}
      [] k = "cv"  -> UNION {NamesOf(f[3][i]) : i \in DOMAIN f[3]} \cup UNION {NamesOf(f[4][i]) : i \in DOMAIN f[4]}
      [] k = "fix" -> NamesOf(f[4]) \cup {f[2]}

HasRef(f) ==
    LET k == f[1] IN
    CASE k = "ref" -> TRUE
      [] k \in {"true", "false", "var", "subtree"} -> FALSE
      [] k = "not" -> HasRef(f[2])
      [] k = "bin" -> HasRef(f[3]) \/ HasRef(f[4])
      [] k = "ite" -> HasRef(f[2]) \/ HasRef(f[3]) \/ HasRef(f[4])
      [] k = "q"   -> HasRef(f[4])
      [] k = "cc"  -> \E i \in DOMAIN f[3] : HasRef(f[3][i])
      [] k = "cv"  -> (\E i \in DOMAIN f[3] : HasRef(f[3][i])) \/ (\E i \in DOMAIN f[4] : HasRef(f[4][i]))
      [] k = "fix" -> HasRef(f[4])

\* names in id order
SortedNames(S) == SelectSeq(NameSeq, LAMBDA n : n \in S)

---------------------------------------------------------------------------
(* evaluator model                                                         *)

\* replace_var (parser.rs:140-215)
RECURSIVE Subst(_, _, _)
Subst(f, x, repl) ==
    LET k == f[1] IN
    CASE k = "var" -> IF f[2] = x THEN repl ELSE f
      [] k \in {"true", "false", "subtree", "ref"} -> f
      [] k = "q"   -> IF x \in SeqRange(f[3]) THEN f ELSE <<"q", f[2], f[3], Subst(f[4], x, repl)>>
      [] k = "fix" -> IF f[2] = x THEN f ELSE <<"fix", f[2], f[3], Subst(f[4], x, repl)>>
      [] k = "ite" -> <<"ite", Subst(f[2], x, repl), Subst(f[3], x, repl), Subst(f[4], x, repl)>>
      [] k = "not" -> <<"not", Subst(f[2], x, repl)>>
      [] k = "bin" -> <<"bin", f[2], Subst(f[3], x, repl), Subst(f[4], x, repl)>>
      [] k = "cc"  -> <<"cc", f[2], [i \in DOMAIN f[3] |-> Subst(f[3][i], x, repl)], f[4]>>
      [] k = "cv"  -> <<"cv", f[2], [i \in DOMAIN f[3] |-> Subst(f[3][i], x, repl)],
                                     [i \in DOMAIN f[4] |-> Subst(f[4][i], x, repl)]>>

\* eval_recursive (parser.rs:318-396)
RECURSIVE Ev(_), EvFix(_, _, _, _)
Ev(f) ==
    LET k == f[1] IN
    CASE k = "false" -> F
      [] k = "true"  -> T
      [] k = "var"   -> Var(IdxOf(f[2]))
      [] k = "not"   -> NotR(Ev(f[2]))
      [] k = "q"     -> (LET vs == [i \in DOMAIN f[3] |-> IdxOf(f[3][i])]
                         IN IF f[2] = "exists" THEN Exists(vs, Ev(f[4])) ELSE All(vs, Ev(f[4])))
      [] k = "cc"    -> (LET bs == [i \in DOMAIN f[3] |-> Ev(f[3][i])]
                             n  == f[4]
                         IN CASE f[2] = "atmost"   -> Amn(bs, n)
                              [] f[2] = "atleast"  -> Aln(bs, n)
                              [] f[2] = "exactly"  -> Exn(bs, n)
                              [] f[2] = "lessthan" -> Amn(bs, n - 1)
                              [] f[2] = "morethan" -> Aln(bs, n + 1))
      [] k = "cv"    -> (LET ls == [i \in DOMAIN f[3] |-> Ev(f[3][i])]
                             rs == [i \in DOMAIN f[4] |-> Ev(f[4][i])]
                         IN CASE f[2] = "atmost"   -> CountLeq(ls, rs)
                              [] f[2] = "atleast"  -> CountGeq(ls, rs)
                              [] f[2] = "exactly"  -> CountEq(ls, rs)
                              [] f[2] = "lessthan" -> CountLt(ls, rs)
                              [] f[2] = "morethan" -> CountGt(ls, rs))
      [] k = "ite"   -> Ite(Ev(f[2]), Ev(f[3]), Ev(f[4]))
      [] k = "bin"   -> BinR(f[2], Ev(f[3]), Ev(f[4]))
      [] k = "fix"   -> EvFix(f[2], f[4], Const(f[3]), Fuel)
      [] k = "subtree" -> f[2]
      [] k = "ref"   -> F

EvFix(x, body, s, fuel) ==
    LET snew == Ev(Subst(body, x, <<"subtree", s>>)) IN
    IF snew = s \/ fuel = 0 THEN s ELSE EvFix(x, body, snew, fuel - 1)

---------------------------------------------------------------------------
(* bridging assignments by name and by variable index                      *)
ToIdx(s)    == [i \in Vars |-> s[NameSeq[i]]]
ToIdxSet(S) == {ToIdx(s) : s \in S}
ToName(a)   == [n \in NameSet |-> a[IdxOf(n)]]

\* truth table of a set of assignments as a 0/1 tuple; row j (1-based) assigns to NameSeq[i] the
\* i-th most significant bit of j-1
BitOfRow(j, i) == ((j - 1) \div (2 ^ (NV - i))) % 2 = 1
RowAsg(j) == [n \in NameSet |-> BitOfRow(j, IdxOf(n))]
TruthTable(S) == [j \in 1..(2 ^ NV) |-> IF RowAsg(j) \in S THEN 1 ELSE 0]
SetOfTable(tt) == {RowAsg(j) : j \in {i \in DOMAIN tt : tt[i] = 1}}

---------------------------------------------------------------------------
(* C06: characterisation of least / greatest fixed points (Knaster-Tarski) *)
Transformer(x, body, rho, r) == Sem(body, Bind(rho, x, r))
Mono(x, body, rho) ==
    \A r1 \in SUBSET NAsg : \A r2 \in SUBSET NAsg :
        r1 \subseteq r2 => Transformer(x, body, rho, r1) \subseteq Transformer(x, body, rho, r2)
\* every nested fixed point of the body converges, whatever the value of x
BodyConv(x, body, rho) == \A r \in SUBSET NAsg : Conv(body, Bind(rho, x, r))
MonoC(x, body, rho) == BodyConv(x, body, rho) /\ Mono(x, body, rho)
IsLfp(r, x, body, rho) ==
    /\ Transformer(x, body, rho, r) = r
    /\ \A q \in SUBSET NAsg : Transformer(x, body, rho, q) \subseteq q => r \subseteq q
IsGfp(r, x, body, rho) ==
    /\ Transformer(x, body, rho, r) = r
    /\ \A q \in SUBSET NAsg : q \subseteq Transformer(x, body, rho, q) => q \subseteq r
=============================================================================
