------------------------------- MODULE MC_Dot -------------------------------
(***************************************************************************)
(* Design check for C14: a model of the two exporters (bdd_io.rs:          *)
(* nodes_recursive / edges_recursive with the leaf filter; parser_io.rs:   *)
(* unique sub-terms, labelled child edges) satisfies the acceptance        *)
(* predicates DotBddOK / DotTreeOK of Dot.tla -- for every diagram over NV *)
(* variables x 3 filters and for every spine formula of depth <= MaxDepth. *)
(* Node ids of the model are the nodes / sub-terms themselves.             *)
(***************************************************************************)
EXTENDS Formulas, Dot, TLC, SequencesExt

CONSTANTS Mode, MaxDepth

VARIABLES x, d
vars == <<x, d>>

LeafKept(n, flt) == flt = "Any" \/ (flt = "True" /\ n = T) \/ (flt = "False" /\ n = F)

ExportBdd(n, flt) ==
    LET keep  == {m \in Sub(n) : ~IsLeaf(m) \/ LeafKept(m, flt)}
        ns    == SetToSeq(keep)
        tests == {m \in keep : ~IsLeaf(m)}
        es    == {<<m, m[2], "T">> : m \in {k \in tests : k[2] \in keep}}
                     \cup {<<m, m[3], "F">> : m \in {k \in tests : k[3] \in keep}}
    IN [nodes |-> [i \in DOMAIN ns |-> <<ns[i], IF ns[i] = T THEN "true" ELSE IF ns[i] = F THEN "false" ELSE NameSeq[ns[i][1]]>>],
        edges |-> SetToSeq(es)]

TreeLabel(t) ==
    LET k == t[1] IN
    CASE k = "var" -> <<"var", t[2]>> [] k = "ref" -> <<"ref", t[2]>>
      [] k = "true" -> <<"const", TRUE>> [] k = "false" -> <<"const", FALSE>>
      [] k = "not" -> <<"not">> [] k = "bin" -> <<"bin", t[2]>> [] k = "ite" -> <<"ite">>
      [] k = "q" -> <<"q", t[2], t[3]>> [] k = "fix" -> <<"fix", t[2], t[3]>>
      [] k = "cc" -> <<"cc", t[2], t[4]>> [] k = "cv" -> <<"cv", t[2]>>

TreeEdges(t) ==
    LET k == t[1] IN
    CASE k \in {"var", "ref", "true", "false"} -> {}
      [] k = "not" -> {<<t, t[2], <<"">> >>}
      [] k = "bin" -> {<<t, t[3], <<"L">> >>, <<t, t[4], <<"R">> >>}
      [] k = "ite" -> {<<t, t[2], <<"If">> >>, <<t, t[3], <<"Then">> >>, <<t, t[4], <<"Else">> >>}
      [] k \in {"q", "fix"} -> {<<t, t[4], <<"">> >>}
      [] k = "cc" -> {<<t, t[3][i], <<"i", i - 1>> >> : i \in DOMAIN t[3]}
      [] k = "cv" -> {<<t, t[3][i], <<"Li", i - 1>> >> : i \in DOMAIN t[3]} \cup {<<t, t[4][i], <<"Ri", i - 1>> >> : i \in DOMAIN t[4]}

ExportTree(t) ==
    LET ns == SetToSeq(SubTerms(t))
    IN [nodes |-> [i \in DOMAIN ns |-> <<ns[i], TreeLabel(ns[i])>>],
        edges |-> SetToSeq(UNION {TreeEdges(s) : s \in SubTerms(t)})]

Thm ==
    IF Mode = "bdd"
    THEN \A flt \in {"Any", "True", "False"} : DotBddOK(ExportBdd(x, flt), {ToName(s) : s \in Sat(x)}, flt)
    ELSE DotTreeOK(ExportTree(x), x)

Init == d = 0 /\ x \in (IF Mode = "bdd" THEN AllWF ELSE Roots)
Grow == Mode = "tree" /\ d < MaxDepth /\ d' = d + 1 /\ x' \in Wrap(x)
Next == Grow
Spec == Init /\ [][Next]_vars
Holds == Thm
=============================================================================
