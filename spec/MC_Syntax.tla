----------------------------- MODULE MC_Syntax -----------------------------
(***************************************************************************)
(* Exhaustive exploration of the tokenizer / grammar of Syntax.tla.        *)
(*                                                                         *)
(* Mode = "tokens": a state is a token sequence over the reduced alphabet  *)
(*   Sigma (one representative per token class); a step appends a token.   *)
(*   Every sequence up to MaxLen is parsed; the accepted ones are printed  *)
(*   with their tree (the rejected ones are the complement: the harness    *)
(*   enumerates the same universe).                                        *)
(* Mode = "chars": a state is a sequence of text pieces; every string made *)
(*   of up to MaxLen pieces is tokenized and printed with its token list.  *)
(* Spelling theorem (both modes, at the initial state): every spelling of  *)
(*   every token tokenizes to exactly that token.                          *)
(***************************************************************************)
EXTENDS Syntax, TLC, Json

CONSTANTS Mode, MaxLen, SampleK

VARIABLE q
vars == <<q>>

Sigma == << <<"var", "a">>, <<"var", "b">>, <<"num", 1>>, <<"not">>, <<"and">>, <<"impliesinv">>, <<"eq">>,
            <<"if">>, <<"then">>, <<"else">>, <<"exists">>, <<"lfp">>, <<"hash">>, <<"(">>, <<")">>,
            <<"[">>, <<"]">>, <<",">>, <<"true">>, <<"ref", "r">> >>

Pieces == << <<"a">>, <<"n">>, <<"d">>, <<"a","n">>, <<"a","n","d">>, <<"i","n">>, <<"i">>, <<"f">>, <<"i","f">>,
             <<"e","q">>, <<"n","u">>, <<"<">>, <<"=">>, <<">">>, <<"-">>, <<"!">>, <<"&">>, <<"|">>, <<"^">>,
             <<"#">>, <<"*">>, <<"+">>, <<"[">>, <<"]">>, <<"(">>, <<")">>, <<",">>, <<" ">>, <<"\n">>,
             <<"\"">>, <<"$">>, <<"{">>, <<"}">>, <<"'">>, <<"1">>, <<"0">>, <<"_">>, <<"é">>, <<"€">>, <<"٣">>,
             <<"A">>, <<"N">>, <<"I">>, <<"t">>, <<"r","u","e">>, <<"o","r">>, <<"x">> >>

RECURSIVE Flatten(_)
Flatten(ps) == IF ps = <<>> THEN <<>> ELSE Pieces[Head(ps)] \o Flatten(Tail(ps))

\* every spelling of every token class
Chars1(a) == <<a>>
Spellings == {
    << <<"a","n","d">>, <<"and">> >>, << <<"&">>, <<"and">> >>, << <<"*">>, <<"and">> >>,
    << <<"o","r">>, <<"or">> >>, << <<"|">>, <<"or">> >>, << <<"+">>, <<"or">> >>,
    << <<"n","o","t">>, <<"not">> >>, << <<"!">>, <<"not">> >>, << <<"-">>, <<"not">> >>,
    << <<"x","o","r">>, <<"xor">> >>, << <<"^">>, <<"xor">> >>,
    << <<"n","o","r">>, <<"nor">> >>, << <<"n","a","n","d">>, <<"nand">> >>,
    << <<"i","m","p","l","i","e","s">>, <<"implies">> >>, << <<"i","n">>, <<"implies">> >>, << <<"=",">">>, <<"implies">> >>,
    << <<"<","=">>, <<"impliesinv">> >>,
    << <<"i","f","f">>, <<"iff">> >>, << <<"e","q">>, <<"iff">> >>, << <<"<","=",">">>, <<"iff">> >>,
    << <<"e","x","i","s","t","s">>, <<"exists">> >>, << <<"a","n","y">>, <<"exists">> >>,
    << <<"f","o","r","a","l","l">>, <<"forall">> >>, << <<"a","l","l">>, <<"forall">> >>,
    << <<"i","f">>, <<"if">> >>, << <<"t","h","e","n">>, <<"then">> >>, << <<"e","l","s","e">>, <<"else">> >>,
    << <<"t","r","u","e">>, <<"true">> >>, << <<"f","a","l","s","e">>, <<"false">> >>,
    << <<"l","f","p">>, <<"lfp">> >>, << <<"m","u">>, <<"lfp">> >>,
    << <<"g","f","p">>, <<"gfp">> >>, << <<"n","u">>, <<"gfp">> >>,
    << <<"#">>, <<"hash">> >>, << <<"=">>, <<"eq">> >>, << <<">","=">>, <<"geq">> >>,
    << <<">">>, <<"gt">> >>, << <<"<">>, <<"lt">> >>,
    << <<"(">>, <<"(">> >>, << <<")">>, <<")">> >>, << <<"[">>, <<"[">> >>, << <<"]">>, <<"]">> >>, << <<",">>, <<",">> >>,
    << <<"x","'","1">>, <<"var", "x'1">> >>, << <<"_","y">>, <<"var", "_y">> >>, << <<"a","n","d","y">>, <<"var", "andy">> >>,
    << <<"T","r","u","e">>, <<"var", "True">> >>, << <<"é","t","é">>, <<"var", "été">> >>,
    << <<"0","4","2">>, <<"num", 42>> >>, << <<"{","r","1","}">>, <<"ref", "r1">> >>,
    << <<"1","8","4","4","6","7","4","4","0","7","3","7","0","9","5","5","1","6","1","5">>, <<"num", NumCap>> >> }

SpellingOK ==
    /\ \A sp \in Spellings : (Tokenize(sp[1]).ok /\ Tokenize(sp[1]).toks = <<sp[2], <<"eof">> >>)
    \* literals beyond usize and non-ASCII digits are not numbers of the language
    /\ Tokenize(<<"1","8","4","4","6","7","4","4","0","7","3","7","0","9","5","5","1","6","1","6">>).loose
    /\ ~Tokenize(<<"1","8","4","4","6","7","4","4","0","7","3","7","0","9","5","5","1","6","1","5">>).loose
    /\ ~Tokenize(<<"1", "٣">>).ok
    \* longest match / keyword boundaries
    /\ Tokenize(<<"<","=",">","=">>).toks = << <<"iff">>, <<"eq">>, <<"eof">> >>
    /\ Tokenize(<<"1","a">>).toks = << <<"num", 1>>, <<"var", "a">>, <<"eof">> >>
    /\ Tokenize(<<"a","1">>).toks = << <<"var", "a1">>, <<"eof">> >>
    /\ Tokenize(<<"\"","a","\"","b","\"">>).toks = << <<"var", "b">>, <<"eof">> >>
    /\ Tokenize(<<"{"," ","x"," ","}">>).toks = << <<"var", "x">>, <<"eof">> >>

Seq2(s) == [i \in DOMAIN s |-> Sigma[s[i]]]

Emit ==
    IF Mode = "tokens"
    THEN LET ts == Seq2(q) \o << <<"eof">> >>
             p  == Parse(ts)
         IN (p.ok /\ (Len(q) <= 4 \/ RandomElement(1..SampleK) = 1)) => PrintT(<<"ACC", ToJson([s |-> q, t |-> p.t])>>)
    ELSE LET cs == Flatten(q)
             tk == Tokenize(cs)
         IN (Len(q) <= 2 \/ RandomElement(1..SampleK) = 1) =>
                PrintT(<<"TOK", ToJson([c |-> cs, ok |-> tk.ok, toks |-> IF tk.ok THEN tk.toks ELSE <<>>])>>)

Holds == (q = <<>> => SpellingOK) /\ Emit

N == IF Mode = "tokens" THEN Len(Sigma) ELSE Len(Pieces)
Init == q = <<>>
Next == Len(q) < MaxLen /\ \E k \in 1..N : q' = Append(q, k)
Spec == Init /\ [][Next]_vars
=============================================================================
