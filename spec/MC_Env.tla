------------------------------ MODULE MC_Env ------------------------------
(* Exhaustive instance of Env.tla (small NV, bounded number of live handles). *)
EXTENDS Env

PickAll(X) == X

A_HistoryFree ==
    [][last'.op \notin {"init", "drop"} => Struct(heap', last'.res) = last'.spec]_vars
=============================================================================
