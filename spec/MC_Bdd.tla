------------------------------ MODULE MC_Bdd ------------------------------
(***************************************************************************)
(* Design-level theorems about Bdd.tla, decided by TLC for small NV.       *)
(* One initial state per element of the theorem's domain; the single       *)
(* action evaluates the theorem on it, so TLC's workers share the domain   *)
(* and a failure comes with the offending element as counterexample.       *)
(***************************************************************************)
EXTENDS Bdd, TLC, Json, IOUtils, SequencesExt

CONSTANTS Which,    \* "C02" | "C03" | "C03ite" | "C04" | "C05c" | "C05l" | "C07" | "C20"
          LMax,     \* C05: maximal list length
          XV,       \* C04: number of variables quantifier lists range over (>= NV)
          Emit      \* TRUE: also write the spec's expected results (case tables for spec->impl replay)

VARIABLES x, ok, pc
vars == <<x, ok, pc>>

Pow2(n) == IF n = 0 THEN 1 ELSE 2 ^ n

W == AllWF
NW == Cardinality(W)

\* all sequences over S of length 0..k
RECURSIVE SeqsUpTo(_, _)
SeqsUpTo(S, k) ==
    IF k = 0 THEN {<<>>}
    ELSE LET R == SeqsUpTo(S, k - 1)
         IN R \cup {<<e>> \o q : e \in S, q \in {r \in R : Len(r) = k - 1}}

---------------------------------------------------------------------------
(* C02: canonicity on the whole of AllWF                                   *)
\* The domain of C02 is the disjoint union of the diagrams and of the sets of assignments:
\*   <<"n", a>>: a well-formed diagram is the canonical form of its own denotation   (Canon o Sat = id on AllWF)
\*   <<"s", S>>: the canonical form of S is a well-formed diagram that denotes S       (Sat o Canon = id on SUBSET Asg)
\* Together: Sat is a bijection AllWF -> SUBSET Asg, i.e. equal function <=> identical diagram.
ThmC02(e) ==
    /\ NW = Pow2(Pow2(NV))
    /\ IF e[1] = "n"
       THEN WF(e[2]) /\ Canon(Sat(e[2])) = e[2]
       ELSE LET c == Canon(e[2]) IN WF(c) /\ c \in W /\ Sat(c) = e[2]

(* C03: connectives are pointwise; operands are values, nothing to mutate  *)
ThmC03(a) ==
    /\ NotR(a) = Canon(Asg \ Sat(a))
    /\ \A b \in W : \A op \in BinOps :
          BinR(op, a, b) = Canon({s \in Asg : BinSem(op, Den(a, s), Den(b, s))})
    /\ \A v \in Vars : Var(v) = Canon({s \in Asg : s[v]})
    /\ Const(TRUE) = Canon(Asg) /\ Const(FALSE) = Canon({})

ThmC03ite(a) ==
    \A b \in W : \A c \in W :
        Ite(a, b, c) = Canon({s \in Asg : IF Den(a, s) THEN Den(b, s) ELSE Den(c, s)})

(* C04: quantifiers; lists over 1..XV, XV > NV gives variables f cannot    *)
(* mention                                                                 *)
QLists == SeqsUpTo(1..XV, 3)

ThmC04(a) ==
    \A V \in QLists :
        LET VS == SeqRange(V) \cap Vars
            e  == Exists(V, a)
            u  == All(V, a)
        IN /\ e = Canon(ExistsSem(VS, Sat(a)))
           /\ u = Canon(ForallSem(VS, Sat(a)))
           /\ Support(e) \cap VS = {} /\ Support(u) \cap VS = {}
           /\ (VS \cap Support(a) = {}) => (e = a /\ u = a)

(* C05: counting against a constant / against a second list                *)
CKinds == {"aln", "amn", "exn"}
LKinds == {"leq", "lt", "geq", "gt", "eq"}
CmpListR(kind, p, q) ==
    CASE kind = "leq" -> CountLeq(p, q)
      [] kind = "lt"  -> CountLt(p, q)
      [] kind = "geq" -> CountGeq(p, q)
      [] kind = "gt"  -> CountGt(p, q)
      [] kind = "eq"  -> CountEq(p, q)

ThmC05c(bs) ==
    \A n \in (-2)..(Len(bs) + 2) : \A kind \in CKinds :
        CmpCount(bs, n, kind) = Canon({s \in Asg : CmpSem(kind, CountTrue(bs, s), n)})

ThmC05l(p) ==
    \A q \in SeqsUpTo(W, LMax) : \A kind \in LKinds :
        CmpListR(kind, p, q) =
            Canon({s \in Asg : CmpListSem(kind, CountTrue(p, s), CountTrue(q, s))})

(* C07 / C20: the algorithm satisfies the property predicate               *)
ThmC07(a) ==
    LET m == ModelR(a)
    IN /\ ModelOK(a, m)
       /\ \A v \in Vars : InferOK(m, v, Infer(m, v))
       /\ \A v \in Vars : InferOK(a, v, Infer(a, v))

ThmC20(a) ==
    \A flt \in {"True", "False", "Any"} : RetainOK(a, flt, RetainR(a, flt))

---------------------------------------------------------------------------
Dom ==
    CASE Which \in {"C03", "C03ite", "C04", "C07", "C20"} -> W
      [] Which = "C02" -> {<<"n", a>> : a \in W} \cup {<<"s", S>> : S \in SUBSET Asg}
      [] Which \in {"C05c", "C05l"} -> SeqsUpTo(W, LMax)

Thm(a) ==
    CASE Which = "C02"    -> ThmC02(a)
      [] Which = "C03"    -> ThmC03(a)
      [] Which = "C03ite" -> ThmC03ite(a)
      [] Which = "C04"    -> ThmC04(a)
      [] Which = "C05c"   -> ThmC05c(a)
      [] Which = "C05l"   -> ThmC05l(a)
      [] Which = "C07"    -> ThmC07(a)
      [] Which = "C20"    -> ThmC20(a)

---------------------------------------------------------------------------
(* Case tables for spec -> impl replay.  Nodes are referred to by their    *)
(* index in Tab (written once as nodes.json); one row file per domain      *)
(* element.  Only structures the spec computes are written -- the harness  *)
(* builds the operands in a real BDDEnv and compares the real result.      *)
Tab   == SetToSeq(W)
\* (TLC evaluates constant definitions eagerly: the quadratic index is only built when tables are emitted)
IdxOf == IF Emit THEN [n \in W |-> CHOOSE i \in 1..NW : Tab[i] = n] ELSE <<>>
IdxSeq(q) == [i \in DOMAIN q |-> IdxOf[q[i]]]

RECURSIVE Join(_)
Join(q) == IF q = <<>> THEN "" ELSE "_" \o ToString(Head(q)) \o Join(Tail(q))

QSeq  == SetToSeq(QLists)
LSeq  == SetToSeq(SeqsUpTo(W, LMax))
CKSeq == <<"aln", "amn", "exn">>
LKSeq == <<"leq", "lt", "geq", "gt", "eq">>

RowName(a) ==
    IF Which \in {"C05c", "C05l"} THEN "row" \o Join(IdxSeq(a)) ELSE "row_" \o ToString(IdxOf[a])

Row(a) ==
    CASE Which = "C03" ->
           [which |-> Which, a |-> IdxOf[a], not |-> IdxOf[NotR(a)],
            bin |-> [op \in BinOps |-> [j \in 1..NW |-> IdxOf[BinR(op, a, Tab[j])]]]]
      [] Which = "C03ite" ->
           [which |-> Which, a |-> IdxOf[a],
            ite |-> [j \in 1..NW |-> [k \in 1..NW |-> IdxOf[Ite(a, Tab[j], Tab[k])]]]]
      [] Which = "C04" ->
           [which |-> Which, a |-> IdxOf[a],
            q |-> [k \in 1..Len(QSeq) |->
                     [vs |-> QSeq[k], e |-> IdxOf[Exists(QSeq[k], a)], u |-> IdxOf[All(QSeq[k], a)]]]]
      [] Which = "C05c" ->
           [which |-> Which, bs |-> IdxSeq(a),
            c |-> [k \in 1..3 |-> [kind |-> CKSeq[k],
                     r |-> [n \in 1..(Len(a) + 5) |-> IdxOf[CmpCount(a, n - 3, CKSeq[k])]]]]]
      [] Which = "C05l" ->
           [which |-> Which, p |-> IdxSeq(a),
            l |-> [j \in 1..Len(LSeq) |->
                     [q |-> IdxSeq(LSeq[j]),
                      r |-> [k \in 1..5 |-> IdxOf[CmpListR(LKSeq[k], a, LSeq[j])]]]]]
      [] OTHER -> [which |-> Which]

EmitRow(a) ==
    IF Emit /\ Which \in {"C03", "C03ite", "C04", "C05c", "C05l"}
    THEN JsonSerialize(IOEnv.OUT \o "/" \o RowName(a) \o ".json", Row(a))
    ELSE TRUE

\* written once (by whichever worker evaluates the constant first)
NodesWritten == IF Emit THEN JsonSerialize(IOEnv.OUT \o "/nodes.json", [nv |-> NV, nodes |-> Tab]) ELSE TRUE
ASSUME NodesWritten

Init == x \in Dom /\ ok = TRUE /\ pc = 0
Eval == pc = 0 /\ pc' = 1 /\ x' = x /\ ok' = (Thm(x) /\ EmitRow(x))
Next == Eval
Spec == Init /\ [][Next]_vars

Holds == ok
=============================================================================
