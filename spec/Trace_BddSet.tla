---------------------------- MODULE Trace_BddSet ----------------------------
(***************************************************************************)
(* impl -> spec: histories of real BDDSet operations on two sets sharing   *)
(* an environment, every event fully logged (operation, operands, returned *)
(* Boolean or panic, and the membership of every element of both sets as   *)
(* observed through the public contains() afterwards, asked twice).        *)
(***************************************************************************)
EXTENDS BddSet, TLC, Json, IOUtils, Sequences

Rec == ndJsonDeserialize(IOEnv.TRACE)

VARIABLES l, st, dead
vars == <<l, st, dead>>

Members(v) == {e \in Univ : v[e + 1]}

Verdict(r) ==
    IF "panic" \in DOMAIN r THEN "panic"
    ELSE LET o == [op |-> r.op, x |-> r.x, y |-> r.y, e |-> r.e]
             a == Apply(st, o)
         IN IF r.op = "contains" /\ r.ret # a[2] THEN "contains returned the wrong answer"
            ELSE IF Members(r.memA1) # a[1].A \/ Members(r.memB1) # a[1].B THEN "membership differs from the reference set"
            ELSE IF Members(r.memA2) # a[1].A \/ Members(r.memB2) # a[1].B THEN "a query changed the set"
            ELSE ""

Init == l = 1 /\ st = InitSt /\ dead = FALSE

Step ==
    /\ l <= Len(Rec)
    /\ l' = l + 1
    /\ LET r == Rec[l] IN
       IF r.k = "reset" THEN st' = InitSt /\ dead' = FALSE
       ELSE IF dead THEN UNCHANGED <<st, dead>>
       ELSE LET v == Verdict(r) IN
            IF v = ""
            THEN st' = Apply(st, [op |-> r.op, x |-> r.x, y |-> r.y, e |-> r.e])[1] /\ dead' = FALSE
            ELSE PrintT("REJECT|" \o ToString(l) \o "|" \o v) /\ dead' = TRUE /\ st' = st

Next == Step
Spec == Init /\ [][Next]_vars

Consumed ==
    \/ TLCGet("stats").diameter - 1 = Len(Rec)
    \/ (PrintT(<<"INCOMPLETE", TLCGet("stats").diameter>>) /\ FALSE)
=============================================================================
