------------------------------ MODULE MC_Nest ------------------------------
(***************************************************************************)
(* Nested fixed points (C06, C01): a finite family of two- and three-      *)
(* binder formulas in which                                                *)
(*   - the kinds of the binders take every combination (alternation and    *)
(*     same-kind nests),                                                   *)
(*   - the innermost body ranges over an ENCLOSING fixed-point value       *)
(*     through a quantifier on a free variable (so the enclosing iteration *)
(*     takes several strict steps),                                        *)
(*   - the inner fixed point may support itself (body op Y), so that it    *)
(*     has several fixed points and the starting value matters.            *)
(* Every inner fixed point must be recomputed from its constant for every  *)
(* iterate of the enclosing one; an implementation that resumes from an    *)
(* earlier value, skips a quantifier whose variable is visible only        *)
(* through the iterate, or caches by syntactic shape gets these wrong.     *)
(*                                                                         *)
(* Each formula is one initial state (no steps).  Invariant Holds:         *)
(*   the formula is monotone by construction, so SemC converges;           *)
(*   the evaluator model Ev (substitution, as eval_recursive/replace_var)  *)
(*   equals Canon of the set semantics;                                    *)
(* and with Emit the formula is printed with its truth table for the       *)
(* spec -> impl replay through the real solver.                            *)
(***************************************************************************)
EXTENDS Formulas, TLC, Json

CONSTANTS Binders,  \* 2 or 3
          Emit,
          CheckK    \* 1 = every formula, k = a 1/k sample

ASSUME NV = Len(NameSeq)

VARIABLE f
vars == <<f>>

V(n) == <<"var", n>>
Lits == {V("a"), <<"not", V("a")>>}
Ops  == {"and", "or"}
Qs   == {"exists", "forall"}
Kinds == BOOLEAN              \* TRUE = gfp

\* the innermost body over the enclosing name w:  lit op (Q a # w [op lit])  and  (Q a # w [op lit])
Quant(w) == {<<"q", q, <<"a">>, V(w)>> : q \in Qs}
              \cup {<<"q", q, <<"a">>, <<"bin", op, V(w), l>> >> : q \in Qs, op \in Ops, l \in Lits}
Body(w)  == Quant(w) \cup {<<"bin", op, l, qq>> : op \in Ops, l \in Lits, qq \in Quant(w)}

\* a fixed point on y around body b: plain, or supporting itself
FixOn(y, b) == {<<"fix", y, k, b>> : k \in Kinds} \cup {<<"fix", y, k, <<"bin", op, b, V(y)>> >> : k \in Kinds, op \in Ops}

Two ==
    LET inner == UNION {FixOn("Y", b) : b \in Body("X")}
        around(i) == {i} \cup {<<"bin", op, l, i>> : op \in Ops, l \in {V("a")}}
                         \cup {<<"bin", "and", <<"not", <<"not", i>> >>, V("a")>>}
    IN {<<"fix", "X", k, o>> : k \in Kinds, o \in UNION {around(i) : i \in inner}}

Three ==
    LET g == Body("Y") \cup Body("X")
        inner == UNION {FixOn("Z", b) : b \in g}
        mid(i) == {i, <<"bin", "or", i, V("X")>>, <<"bin", "and", i, <<"bin", "or", V("X"), V("a")>> >>}
    IN {<<"fix", "Y", k1, <<"fix", "X", k2, m>> >> : k1 \in Kinds, k2 \in Kinds, m \in UNION {mid(i) : i \in inner}}

\* Binders = 1: quantifiers over every one-step wrapper of a variable -- the quantified name in every operand position
\* of every node kind (both sides of a connective, each branch of if-then-else, inside counting lists on either side
\* of a comparison, under another binder of the same or another name, under a fixed point), every list shape of VLists
Quantified ==
    {<<"q", q, vs, w>> : q \in Qs, vs \in VLists, w \in UNION {Wrap(r) : r \in VarAtoms}}

Family == CASE Binders = 1 -> Quantified [] Binders = 2 -> Two [] OTHER -> Three

Thm(g) ==
    LET m == SemC(g, <<>>) IN
    /\ Binders > 1 => m.ok                 \* the nested families are monotone by construction
    /\ m.ok => Ev(g) = Canon(ToIdxSet(m.s))
    /\ Parse(Sentence(g, TRUE)) = [ok |-> TRUE, t |-> g]

Case(g) ==
    LET m == SemC(g, <<>>) IN
    [t |-> g, names |-> NameSeq, conv |-> m.ok,
     tt |-> IF m.ok THEN TruthTable(m.s) ELSE <<>>,
     fv |-> SortedNames(FV(g)), all |-> SortedNames(NamesOf(g)), ref |-> FALSE,
     loose |-> Sentence(g, TRUE), strict |-> Sentence(g, FALSE)]

Holds ==
    (CheckK = 1 \/ RandomElement(1..CheckK) = 1) =>
        (Thm(f) /\ (Emit => PrintT(<<"CASE", ToJson(Case(f))>>)))

Init == f \in Family
Next == UNCHANGED f
Spec == Init /\ [][Next]_vars
=============================================================================
