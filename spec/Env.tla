-------------------------------- MODULE Env --------------------------------
(***************************************************************************)
(* BDDEnv (src/bdd.rs) as a state machine with node identities.            *)
(*                                                                         *)
(*   heap    : sequence, id |-> row; rows <<0>>, <<1>> (the two leaves     *)
(*             seeded by BDDEnv::new, ids FId = 1, TId = 2) or             *)
(*             <<v, hiId, loId>>.  An id stands for one Rc allocation.     *)
(*   uniq    : the ids that are values of the unique table env.nodes       *)
(*   handles : the set of ids the client currently holds                   *)
(*   last    : observation of the last step [op, args, res] (not part of   *)
(*             the VIEW)                                                    *)
(*                                                                         *)
(* One action per public operation; its effect is computed by the          *)
(* heap-threading operators below, which have the recursion shape AND the  *)
(* argument evaluation order of the Rust code, so intermediate nodes are   *)
(* interned exactly as the code interns them.  MkH is the single           *)
(* borrow_mut section of mk_choice: look the triple up, else append.       *)
(*                                                                         *)
(* Struct(heap, id) is the refinement mapping into Bdd.tla's node algebra. *)
(***************************************************************************)
EXTENDS Bdd, TLC

CONSTANTS MaxHandles,   \* bound on the number of handles the client keeps
          CountMax,     \* counting bounds range over -1..CountMax
          ListMax,      \* maximal length of an operand list of a counting operation (1 or 2)
          Pick(_)       \* how operands/parameters are drawn from a set: all of them (exhaustive
                        \* model checking) or one random element (simulation for spec->impl replay)

VARIABLES heap, uniq, handles, last
vars == <<heap, uniq, handles, last>>

FId == 1
TId == 2
ConstId(b) == IF b THEN TId ELSE FId

---------------------------------------------------------------------------
(* heap-threading operators: each returns <<heap', id>>                    *)

\* mk_choice (bdd.rs:148-169): simplify, then get-or-insert under one borrow
MkH(h, t, v, f) ==
    IF t = f THEN <<h, t>>
    ELSE LET hit == {i \in DOMAIN h : h[i] = <<v, t, f>>}
         IN IF hit # {} THEN <<h, CHOOSE i \in hit : TRUE>>
            ELSE <<Append(h, <<v, t, f>>), Len(h) + 1>>

VarH(h, v) == MkH(h, TId, v, FId)

RECURSIVE AndH(_, _, _)
AndH(h, a, b) ==
    IF a = FId \/ b = FId THEN <<h, FId>>
    ELSE IF a = TId THEN <<h, b>>
    ELSE IF b = TId THEN <<h, a>>
    ELSE LET na == h[a]
             nb == h[b]
         IN IF na[1] < nb[1]
            THEN LET r1 == AndH(h, na[2], b)
                     r2 == AndH(r1[1], na[3], b)
                 IN MkH(r2[1], r1[2], na[1], r2[2])
            ELSE IF nb[1] < na[1]
            THEN LET r1 == AndH(h, nb[2], a)
                     r2 == AndH(r1[1], nb[3], a)
                 IN MkH(r2[1], r1[2], nb[1], r2[2])
            ELSE LET r1 == AndH(h, na[2], nb[2])
                     r2 == AndH(r1[1], na[3], nb[3])
                 IN MkH(r2[1], r1[2], na[1], r2[2])

RECURSIVE OrH(_, _, _)
OrH(h, a, b) ==
    IF a = TId \/ b = TId THEN <<h, TId>>
    ELSE IF a = FId THEN <<h, b>>
    ELSE IF b = FId THEN <<h, a>>
    ELSE LET na == h[a]
             nb == h[b]
         IN IF na[1] < nb[1]
            THEN LET r1 == OrH(h, na[2], b)
                     r2 == OrH(r1[1], na[3], b)
                 IN MkH(r2[1], r1[2], na[1], r2[2])
            ELSE IF nb[1] < na[1]
            THEN LET r1 == OrH(h, nb[2], a)
                     r2 == OrH(r1[1], nb[3], a)
                 IN MkH(r2[1], r1[2], nb[1], r2[2])
            ELSE LET r1 == OrH(h, na[2], nb[2])
                     r2 == OrH(r1[1], na[3], nb[3])
                 IN MkH(r2[1], r1[2], na[1], r2[2])

RECURSIVE NotH(_, _)
NotH(h, a) ==
    IF a = FId THEN <<h, TId>>
    ELSE IF a = TId THEN <<h, FId>>
    ELSE LET na == h[a]
             r1 == NotH(h, na[2])
             r2 == NotH(r1[1], na[3])
         IN MkH(r2[1], r1[2], na[1], r2[2])

\* implies = or(not(a), b)
ImpliesH(h, a, b) == LET r1 == NotH(h, a) IN OrH(r1[1], r1[2], b)

\* ite = and(implies(a, b), implies(not(a), c))
IteH(h, a, b, c) ==
    LET r1 == ImpliesH(h, a, b)
        r2 == NotH(r1[1], a)
        r3 == ImpliesH(r2[1], r2[2], c)
    IN AndH(r3[1], r1[2], r3[2])

\* eq = and(implies(a, b), implies(b, a))
EqH(h, a, b) ==
    LET r1 == ImpliesH(h, a, b)
        r2 == ImpliesH(r1[1], b, a)
    IN AndH(r2[1], r1[2], r2[2])

\* xor = or(and(not(a), b), and(a, not(b)))
XorH(h, a, b) ==
    LET r1 == NotH(h, a)
        r2 == AndH(r1[1], r1[2], b)
        r3 == NotH(r2[1], b)
        r4 == AndH(r3[1], a, r3[2])
    IN OrH(r4[1], r2[2], r4[2])

\* nor = and(not(a), not(b))
NorH(h, a, b) ==
    LET r1 == NotH(h, a)
        r2 == NotH(r1[1], b)
    IN AndH(r2[1], r1[2], r2[2])

\* nand = not(and(a, b))
NandH(h, a, b) == LET r1 == AndH(h, a, b) IN NotH(r1[1], r1[2])

BinH(op, h, a, b) ==
    CASE op = "and"        -> AndH(h, a, b)
      [] op = "or"         -> OrH(h, a, b)
      [] op = "xor"        -> XorH(h, a, b)
      [] op = "nor"        -> NorH(h, a, b)
      [] op = "nand"       -> NandH(h, a, b)
      [] op = "implies"    -> ImpliesH(h, a, b)
      [] op = "impliesinv" -> ImpliesH(h, b, a)
      [] op = "iff"        -> EqH(h, a, b)

RECURSIVE CmpCountH(_, _, _, _)
CmpCountH(h, bs, n, kind) ==
    IF bs = <<>> THEN <<h, ConstId(CmpBase(kind, n))>>
    ELSE LET r1 == CmpCountH(h, Tail(bs), n - 1, kind)
             r2 == CmpCountH(r1[1], Tail(bs), n, kind)
         IN IteH(r2[1], Head(bs), r1[2], r2[2])

RECURSIVE CmpCountCompareH(_, _, _, _, _)
CmpCountCompareH(h, a, b, n, kind) ==
    IF a = <<>> THEN CmpCountH(h, b, n, kind)
    ELSE LET r1 == CmpCountCompareH(h, Tail(a), b, n + 1, kind)
             r2 == CmpCountCompareH(r1[1], Tail(a), b, n, kind)
         IN IteH(r2[1], Head(a), r1[2], r2[2])

CountListH(kind, h, p, q) ==
    CASE kind = "leq" -> CmpCountCompareH(h, p, q, 0, "aln")
      [] kind = "lt"  -> CmpCountCompareH(h, p, q, 1, "aln")
      [] kind = "geq" -> CmpCountCompareH(h, p, q, 0, "amn")
      [] kind = "gt"  -> CmpCountCompareH(h, p, q, -1, "amn")
      [] kind = "eq"  -> LET r1 == CmpCountCompareH(h, p, q, 0, "aln")
                             r2 == CmpCountCompareH(r1[1], p, q, 0, "amn")
                         IN AndH(r2[1], r1[2], r2[2])

RECURSIVE ExistsImplH(_, _, _)
ExistsImplH(h, v, b) ==
    IF b = FId \/ b = TId THEN <<h, b>>
    ELSE LET nb == h[b]
         IN IF nb[1] = v THEN OrH(h, nb[2], nb[3])
            ELSE LET r1 == ExistsImplH(h, v, nb[2])
                     r2 == ExistsImplH(r1[1], v, nb[3])
                 IN MkH(r2[1], r1[2], nb[1], r2[2])

RECURSIVE ExistsH(_, _, _)
ExistsH(h, vs, b) ==
    IF vs = <<>> THEN <<h, b>>
    ELSE LET r1 == ExistsH(h, Tail(vs), b) IN ExistsImplH(r1[1], Head(vs), r1[2])

AllH(h, vs, b) ==
    LET r1 == NotH(h, b)
        r2 == ExistsH(r1[1], vs, r1[2])
    IN NotH(r2[1], r2[2])

RECURSIVE ModelH(_, _)
ModelH(h, a) ==
    IF a = FId \/ a = TId THEN <<h, a>>
    ELSE LET na == h[a]
             l  == ModelH(h, na[2])
             r  == ModelH(l[1], na[3])
         IN IF l[2] # FId
            THEN LET v1 == VarH(r[1], na[1]) IN AndH(v1[1], l[2], v1[2])
            ELSE IF r[2] # FId
            THEN LET v1 == VarH(r[1], na[1])
                     n1 == NotH(v1[1], v1[2])
                 IN AndH(n1[1], n1[2], r[2])
            ELSE <<r[1], FId>>

IsLeafId(i) == i = FId \/ i = TId

RECURSIVE RetainH(_, _, _)
RetainH(h, src, filter) ==
    IF filter = "Any" \/ IsLeafId(src) THEN <<h, src>>
    ELSE LET ns    == h[src]
             left  == RetainH(h, ns[2], filter)
             right == RetainH(left[1], ns[3], filter)
             ft    == (filter = "True")
             h2    == right[1]
         IN IF IsLeafId(left[2]) /\ ~IsLeafId(right[2])
            THEN (IF (left[2] = TId) # ft THEN <<h2, right[2]>> ELSE MkH(h2, left[2], ns[1], right[2]))
            ELSE IF IsLeafId(right[2]) /\ ~IsLeafId(left[2])
            THEN (IF (right[2] = TId) # ft THEN <<h2, left[2]>> ELSE MkH(h2, left[2], ns[1], right[2]))
            ELSE MkH(h2, left[2], ns[1], right[2])

\* clean (bdd.rs:112-122): find both children, mk_choice again -- the identity on interned nodes
CleanH(h, root) ==
    IF IsLeafId(root) THEN <<h, root>>
    ELSE LET n == h[root] IN MkH(h, n[2], n[1], n[3])

\* fp (bdd.rs:422-435) with the transformer x |-> op(x, c)
RECURSIVE FpH(_, _, _, _, _)
FpH(h, s, op, c, fuel) ==
    LET r == BinH(op, h, s, c)
    IN IF r[2] = s \/ fuel = 0 THEN <<r[1], s>>
       ELSE FpH(r[1], r[2], op, c, fuel - 1)

---------------------------------------------------------------------------
(* refinement mapping and the specification-level value of each operation *)

RECURSIVE Struct(_, _)
Struct(h, i) ==
    LET n == h[i] IN IF Len(n) = 1 THEN n ELSE <<n[1], Struct(h, n[2]), Struct(h, n[3])>>

StructSeq(h, q) == [i \in DOMAIN q |-> Struct(h, q[i])]

RECURSIVE Reach(_, _)
Reach(h, i) ==
    LET n == h[i] IN IF Len(n) = 1 THEN {i} ELSE {i} \cup Reach(h, n[2]) \cup Reach(h, n[3])

---------------------------------------------------------------------------
(* the machine                                                             *)

Init ==
    /\ heap = <<F, T>>
    /\ uniq = {FId, TId}
    /\ handles = {}
    /\ last = [op |-> "init", args |-> <<>>, par |-> <<>>, res |-> FId, spec |-> F]

\* an operation delivered <<h2, id>>; every heap entry is a table entry (mk_choice is the only
\* allocator), the result becomes a handle; spec is what Bdd.tla says the result must be
Deliver(r, op, args, par, spec) ==
    /\ heap' = r[1]
    /\ uniq' = 1..Len(r[1])
    /\ handles' = handles \cup {r[2]}
    /\ last' = [op |-> op, args |-> args, par |-> par, res |-> r[2], spec |-> spec]

S(i) == Struct(heap, i)

OpConst == \E b \in Pick(BOOLEAN) : Deliver(<<heap, ConstId(b)>>, "const", <<>>, <<b>>, Const(b))
OpVar   == \E v \in Pick(Vars) : Deliver(VarH(heap, v), "var", <<>>, <<v>>, Var(v))
OpNot   == \E a \in Pick(handles) : Deliver(NotH(heap, a), "not", <<a>>, <<>>, NotR(S(a)))
OpBin   == \E op \in Pick(BinOps) : \E a \in Pick(handles) : \E b \in Pick(handles) :
               Deliver(BinH(op, heap, a, b), op, <<a, b>>, <<>>, BinR(op, S(a), S(b)))
OpIte   == \E a \in Pick(handles) : \E b \in Pick(handles) : \E c \in Pick(handles) :
               Deliver(IteH(heap, a, b, c), "ite", <<a, b, c>>, <<>>, Ite(S(a), S(b), S(c)))
QLists  == {<<>>} \cup {<<v>> : v \in Vars} \cup {<<v, w>> : v \in Vars, w \in Vars}
OpExists == \E a \in Pick(handles) : \E vs \in Pick(QLists) :
               Deliver(ExistsH(heap, vs, a), "exists", <<a>>, vs, Exists(vs, S(a)))
OpAll   == \E a \in Pick(handles) : \E vs \in Pick(QLists) :
               Deliver(AllH(heap, vs, a), "all", <<a>>, vs, All(vs, S(a)))
HLists  == {<<>>} \cup {<<a>> : a \in handles}
               \cup (IF ListMax >= 2 THEN {<<a, b>> : a \in handles, b \in handles} ELSE {})
OpCount == \E bs \in Pick(HLists) : \E n \in Pick((-1)..CountMax) : \E kind \in Pick({"aln", "amn", "exn"}) :
               Deliver(CmpCountH(heap, bs, n, kind), kind, bs, <<n>>, CmpCount(StructSeq(heap, bs), n, kind))
SpecCountList(kind, p, q) ==
    CASE kind = "leq" -> CountLeq(p, q) [] kind = "lt" -> CountLt(p, q) [] kind = "geq" -> CountGeq(p, q)
      [] kind = "gt" -> CountGt(p, q) [] kind = "eq" -> CountEq(p, q)
OpCountList == \E p \in Pick(HLists) : \E q \in Pick(HLists) : \E kind \in Pick({"leq", "lt", "geq", "gt", "eq"}) :
               Deliver(CountListH(kind, heap, p, q), kind, p \o q, <<Len(p)>>,
                       SpecCountList(kind, StructSeq(heap, p), StructSeq(heap, q)))
OpModel == \E a \in Pick(handles) : Deliver(ModelH(heap, a), "model", <<a>>, <<>>, ModelR(S(a)))
OpRetain == \E a \in Pick(handles) : \E flt \in Pick({"True", "False", "Any"}) :
               Deliver(RetainH(heap, a, flt), "retain", <<a>>, <<flt>>, RetainR(S(a), flt))
OpClean == \E a \in Pick(handles) : Deliver(CleanH(heap, a), "clean", <<a>>, <<>>, S(a))
\* fp with the monotone transformers x |-> x or c, x |-> x and c; Bdd.tla value: a or c / a and c
OpFp    == \E a \in Pick(handles) : \E c \in Pick(handles) : \E op \in Pick({"and", "or"}) :
               Deliver(FpH(heap, a, op, c, 4), "fp", <<a, c>>, <<op>>, BinR(op, S(a), S(c)))
\* the client forgets a handle (nodes stay interned: the table owns them)
OpDrop  == \E a \in Pick(handles) :
               /\ handles' = handles \ {a}
               /\ last' = [op |-> "drop", args |-> <<a>>, par |-> <<>>, res |-> FId, spec |-> F]
               /\ UNCHANGED <<heap, uniq>>

Next ==
    \/ OpConst \/ OpVar \/ OpNot \/ OpBin \/ OpIte \/ OpExists \/ OpAll \/ OpCount \/ OpCountList
    \/ OpModel \/ OpRetain \/ OpClean \/ OpFp \/ OpDrop

Spec == Init /\ [][Next]_vars

---------------------------------------------------------------------------
(* invariants and action properties (C13, C02)                             *)

\* the environment always contains the two leaves
I_Leaves == heap[FId] = F /\ heap[TId] = T /\ {FId, TId} \subseteq uniq

\* one shared node per structure: no two ids carry the same row
I_Unique == \A i \in DOMAIN heap : \A j \in DOMAIN heap : heap[i] = heap[j] => i = j

\* every node is ordered and reduced
I_WF == \A i \in DOMAIN heap :
            LET n == heap[i] IN
            Len(n) = 3 =>
                /\ n[2] # n[3]
                /\ n[2] \in 1..(i - 1) /\ n[3] \in 1..(i - 1)
                /\ \A c \in {n[2], n[3]} : Len(heap[c]) = 3 => heap[c][1] > n[1]

\* equal function <=> same id (canonicity at the level of identities)
I_Canon == \A i \in DOMAIN heap : \A j \in DOMAIN heap :
               (Sat(Struct(heap, i)) = Sat(Struct(heap, j))) => i = j

\* everything reachable from a handle is a table entry
I_Closed == \A a \in handles : Reach(heap, a) \subseteq uniq

\* handed-out diagrams stay valid: rows are never rewritten, the table never shrinks
A_AppendOnly ==
    [][/\ \A i \in DOMAIN heap : i \in DOMAIN heap' /\ heap'[i] = heap[i]
       /\ uniq \subseteq uniq']_vars

\* outcome independent of history: the result denotes exactly what Bdd.tla computes from the
\* operands' structures (= the outcome in a fresh environment)
I_HistoryFree == last.op \notin {"init", "drop"} => Struct(heap, last.res) = last.spec

TypeOK == handles \subseteq DOMAIN heap /\ uniq \subseteq DOMAIN heap

\* TLC VIEW: the structures present (as a bag, so that a duplicate row is a different state),
\* and the handles as structures; ids and `last` are abstracted away
StructView == <<{<<Struct(heap, i), Cardinality({j \in DOMAIN heap : heap[j] = heap[i]})>> : i \in DOMAIN heap},
                {Struct(heap, a) : a \in handles},
                {Struct(heap, i) : i \in uniq}>>

HandleBound == Cardinality(handles) <= MaxHandles
=============================================================================
