//! spec -> impl: replay the case tables written by MC_Bdd (Emit = TRUE) through the real BDDEnv.
use std::io::Write;
use std::path::Path;
use std::rc::Rc;

use rsbdd::bdd::BDDEnv;
use serde_json::{json, Value};

use crate::util::*;

struct Ctx {
    env: BDDEnv<usize>,
    map: Vec<usize>,
    inv: std::collections::HashMap<usize, usize>,
    nodes_json: Vec<Value>,
    real: Vec<Node>,  // operands built in the real environment
    plain: Vec<Node>, // expected values, built without any environment
    cases: u64,
    mismatches: u64,
    panics: u64,
    out: Box<dyn Write>,
    samples: Vec<Value>,
}

impl Ctx {
    fn report(&mut self, case: Value, exp: usize, got: Result<Node, String>) {
        self.cases += 1;
        if self.samples.len() < 3 && self.cases % 997 == 1 {
            self.samples.push(case.clone());
        }
        let bad = match &got {
            Ok(g) => {
                let e = &self.plain[exp];
                !(g == e && g.get_hash() == e.get_hash())
            }
            Err(_) => true,
        };
        if bad {
            self.mismatches += 1;
            let gotj = match &got {
                Ok(g) => to_json(g, &self.inv),
                Err(m) => {
                    self.panics += 1;
                    json!({"panic": m})
                }
            };
            let line = json!({"mismatch": {"case": case, "expected": self.nodes_json[exp], "got": gotj}});
            writeln!(self.out, "{}", line).ok();
        }
    }

    fn operands_unchanged(&mut self, used: &[usize], case: &Value) {
        for &i in used {
            if self.real[i] != self.plain[i] {
                self.mismatches += 1;
                let line = json!({"mismatch": {"case": case, "operand_changed": i}});
                writeln!(self.out, "{}", line).ok();
            }
        }
    }
}

fn list(ctx: &Ctx, v: &Value) -> Vec<Node> {
    v.as_array().expect("list").iter().map(|i| Rc::clone(&ctx.real[idx(i) - 1])).collect()
}

pub fn run(dir: &Path, out: Box<dyn Write>) -> Value {
    let mut r = rng(11);
    let nodes = read_json(&dir.join("nodes.json"));
    let nv = nodes["nv"].as_u64().expect("nv") as usize;
    let map = injection(nv + 2, &mut r);
    let inv = inverse(&map);
    let env = BDDEnv::new();
    let nodes_json: Vec<Value> = nodes["nodes"].as_array().expect("nodes").clone();
    let real: Vec<Node> = nodes_json.iter().map(|n| build_env(&env, n, &map)).collect();
    let plain: Vec<Node> = nodes_json.iter().map(|n| build_plain(n, &map)).collect();
    let mut ctx = Ctx { env, map, inv, nodes_json, real, plain, cases: 0, mismatches: 0, panics: 0, out, samples: vec![] };

    // building a structure bottom-up in the environment must give exactly that structure
    for i in 0..ctx.real.len() {
        let case = json!({"op": "build", "a": i + 1});
        let g = Rc::clone(&ctx.real[i]);
        ctx.report(case, i, Ok(g));
    }

    let mut files: Vec<_> = std::fs::read_dir(dir)
        .expect("read_dir")
        .filter_map(|e| e.ok())
        .map(|e| e.path())
        .filter(|p| p.file_name().and_then(|n| n.to_str()).map(|n| n.starts_with("row")).unwrap_or(false))
        .collect();
    files.sort();
    let mut rows = 0u64;
    for f in files {
        let row = read_json(&f);
        rows += 1;
        match row["which"].as_str().unwrap_or("") {
            "C03" => {
                let a = idx(&row["a"]) - 1;
                let case = json!({"op": "not", "a": a + 1});
                let ra = Rc::clone(&ctx.real[a]);
                let got = guarded(|| ctx.env.not(ra));
                ctx.report(case.clone(), idx(&row["not"]) - 1, got);
                ctx.operands_unchanged(&[a], &case);
                for (op, arr) in row["bin"].as_object().expect("bin") {
                    for (j, e) in arr.as_array().expect("arr").iter().enumerate() {
                        let case = json!({"op": op, "a": a + 1, "b": j + 1});
                        let (x, y) = (Rc::clone(&ctx.real[a]), Rc::clone(&ctx.real[j]));
                        let env = &ctx.env;
                        let got = guarded(|| match op.as_str() {
                            "and" => env.and(x, y),
                            "or" => env.or(x, y),
                            "xor" => env.xor(x, y),
                            "nor" => env.nor(x, y),
                            "nand" => env.nand(x, y),
                            "implies" => env.implies(x, y),
                            "impliesinv" => env.implies(y, x),
                            "iff" => env.eq(x, y),
                            _ => panic!("harness: unknown op"),
                        });
                        ctx.report(case.clone(), idx(e) - 1, got);
                        ctx.operands_unchanged(&[a, j], &case);
                    }
                }
            }
            "C03ite" => {
                let a = idx(&row["a"]) - 1;
                for (j, arr) in row["ite"].as_array().expect("ite").iter().enumerate() {
                    for (k, e) in arr.as_array().expect("arr").iter().enumerate() {
                        let case = json!({"op": "ite", "a": a + 1, "b": j + 1, "c": k + 1});
                        let (x, y, z) = (Rc::clone(&ctx.real[a]), Rc::clone(&ctx.real[j]), Rc::clone(&ctx.real[k]));
                        let env = &ctx.env;
                        let got = guarded(|| env.ite(x, y, z));
                        ctx.report(case.clone(), idx(e) - 1, got);
                        ctx.operands_unchanged(&[a, j, k], &case);
                    }
                }
            }
            "C04" => {
                let a = idx(&row["a"]) - 1;
                for q in row["q"].as_array().expect("q") {
                    let vs: Vec<usize> = q["vs"].as_array().expect("vs").iter().map(|v| ctx.map[idx(v)]).collect();
                    let case = json!({"op": "exists", "a": a + 1, "vs": q["vs"]});
                    let (x, env, vv) = (Rc::clone(&ctx.real[a]), &ctx.env, vs.clone());
                    let got = guarded(|| env.exists(vv, x));
                    ctx.report(case.clone(), idx(&q["e"]) - 1, got);
                    let case = json!({"op": "all", "a": a + 1, "vs": q["vs"]});
                    let (x, env, vv) = (Rc::clone(&ctx.real[a]), &ctx.env, vs.clone());
                    let got = guarded(|| env.all(vv, x));
                    ctx.report(case.clone(), idx(&q["u"]) - 1, got);
                    ctx.operands_unchanged(&[a], &case);
                }
            }
            "C05c" => {
                let bs = list(&ctx, &row["bs"]);
                for c in row["c"].as_array().expect("c") {
                    let kind = c["kind"].as_str().expect("kind").to_string();
                    for (k, e) in c["r"].as_array().expect("r").iter().enumerate() {
                        let n = k as i64 + 1 - 3;
                        let case = json!({"op": kind, "bs": row["bs"], "n": n});
                        let env = &ctx.env;
                        let got = guarded(|| match kind.as_str() {
                            "aln" => env.aln(&bs, n),
                            "amn" => env.amn(&bs, n),
                            "exn" => env.exn(&bs, n),
                            _ => panic!("harness: unknown kind"),
                        });
                        ctx.report(case, idx(e) - 1, got);
                    }
                }
            }
            "C05l" => {
                let p = list(&ctx, &row["p"]);
                for l in row["l"].as_array().expect("l") {
                    let q = list(&ctx, &l["q"]);
                    for (k, e) in l["r"].as_array().expect("r").iter().enumerate() {
                        let kind = ["leq", "lt", "geq", "gt", "eq"][k];
                        let case = json!({"op": kind, "p": row["p"], "q": l["q"]});
                        let env = &ctx.env;
                        let got = guarded(|| match kind {
                            "leq" => env.count_leq(&p, &q),
                            "lt" => env.count_lt(&p, &q),
                            "geq" => env.count_geq(&p, &q),
                            "gt" => env.count_gt(&p, &q),
                            _ => env.count_eq(&p, &q),
                        });
                        ctx.report(case, idx(e) - 1, got);
                    }
                }
            }
            other => panic!("harness: unknown row kind {:?} in {}", other, f.display()),
        }
    }
    json!({"summary": {"rows": rows, "cases": ctx.cases, "mismatches": ctx.mismatches, "panics": ctx.panics,
                        "nv": nv, "symbols": ctx.map[1..].to_vec(), "samples": ctx.samples}})
}
