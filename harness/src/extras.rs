//! impl -> spec for the behaviour specified in Extras.tla (outside the twenty listed properties).
use std::collections::HashMap;
use std::io::Write;
use std::rc::Rc;
use std::str::FromStr;

use rand::Rng;
use rsbdd::bdd;
use rsbdd::bdd::{BDDEnv, BDD};
use rsbdd::parser::{ParsedFormula, ReferenceContents};
use rsbdd::{NamedSymbol, TruthTableEntry};
use serde_json::{json, Value};

use crate::lang::*;
use crate::util::*;

fn structure_ns(b: &BDD<NamedSymbol>, rank: &HashMap<usize, usize>) -> Value {
    match b {
        BDD::False => json!([0]),
        BDD::True => json!([1]),
        BDD::Choice(t, v, f) => json!([rank[&v.id], structure_ns(t, rank), structure_ns(f, rank)]),
    }
}

fn structure_raw(b: &BDD<usize>) -> Value {
    match b {
        BDD::False => json!([0]),
        BDD::True => json!([1]),
        BDD::Choice(t, v, f) => json!([v, structure_raw(t), structure_raw(f)]),
    }
}

fn canon(t: &Value, m: &HashMap<String, String>) -> Value {
    // rename names of a tree (tuple form) by the map; unknown names are kept
    let a = t.as_array().expect("tree");
    let k = a[0].as_str().expect("kind");
    let nm = |v: &Value| json!(m.get(v.as_str().expect("name")).cloned().unwrap_or_else(|| v.as_str().expect("name").to_string()));
    let list = |v: &Value| Value::Array(v.as_array().expect("list").iter().map(|x| canon(x, m)).collect());
    match k {
        "true" | "false" | "ref" => t.clone(),
        "var" => json!(["var", nm(&a[1])]),
        "not" => json!(["not", canon(&a[1], m)]),
        "bin" => json!(["bin", a[1], canon(&a[2], m), canon(&a[3], m)]),
        "ite" => json!(["ite", canon(&a[1], m), canon(&a[2], m), canon(&a[3], m)]),
        "q" => json!(["q", a[1], a[2].as_array().expect("vs").iter().map(nm).collect::<Vec<_>>(), canon(&a[3], m)]),
        "cc" => json!(["cc", a[1], list(&a[2]), a[3]]),
        "cv" => json!(["cv", a[1], list(&a[2]), list(&a[3])]),
        "fix" => json!(["fix", nm(&a[1]), a[2], canon(&a[3], m)]),
        other => panic!("harness: tree kind {}", other),
    }
}

macro_rules! both {
    ($($t:tt)+) => { (stringify!($($t)+), bdd!($($t)+)) };
}

/// record-extras <out.ndjson> <count>
pub fn record(args: &[String]) -> Value {
    let count: usize = args[1].parse().expect("count");
    let mut r = rng(97);
    let mut out = std::io::BufWriter::new(std::fs::File::create(&args[0]).expect("create"));
    let mut n = 0u64;
    let mut emit = |v: Value, out: &mut std::io::BufWriter<std::fs::File>| {
        writeln!(out, "{}", v).ok();
    };
    // TruthTableEntry
    for s in ["true", "True", "t", "T", "1", "false", "False", "f", "F", "0", "any", "Any", "a", "A", "*", "TRUE", "yes", "", "tt", "2", "Tru", "ANY", " t"] {
        let rec = match TruthTableEntry::from_str(s) {
            Ok(v) => json!({"k": "tte", "s": s, "res": format!("{:?}", v), "disp": format!("{}", v)}),
            Err(_) => json!({"k": "tte", "s": s, "res": "error", "disp": ""}),
        };
        emit(rec, &mut out);
        n += 1;
    }
    // diagrams over three named symbols with non-adjacent ids
    let ids = [3usize, 8, 20];
    let syms: Vec<NamedSymbol> = ["p", "q", "r"].iter().zip(ids.iter()).map(|(nm, id)| NamedSymbol { name: Rc::new(nm.to_string()), id: *id }).collect();
    let rank: HashMap<usize, usize> = ids.iter().enumerate().map(|(i, id)| (*id, i + 1)).collect();
    let env: BDDEnv<NamedSymbol> = BDDEnv::new();
    for _ in 0..count {
        let tt: Vec<bool> = (0..8).map(|_| r.gen_bool(0.5)).collect();
        fn build(env: &BDDEnv<NamedSymbol>, syms: &[NamedSymbol], tt: &[bool], v: usize) -> Rc<BDD<NamedSymbol>> {
            if v == syms.len() {
                return env.mk_const(tt[0]);
            }
            let h = tt.len() / 2;
            let lo = build(env, syms, &tt[..h], v + 1);
            let hi = build(env, syms, &tt[h..], v + 1);
            env.mk_choice(hi, syms[v].clone(), lo)
        }
        let f = build(&env, &syms, &tt, 0);
        let fj = structure_ns(&f, &rank);
        let list: Vec<Value> = f.node_list().iter().map(|x| structure_ns(x, &rank)).collect();
        emit(json!({"k": "node_list", "f": fj, "list": list}), &mut out);
        let conv: BDD<usize> = BDD::from(f.as_ref().clone());
        emit(json!({"k": "convert", "f": fj, "ids": ids, "r": structure_raw(&conv)}), &mut out);
        let dup = guarded(|| env.duplicates(Rc::clone(&f)));
        emit(json!({"k": "duplicates", "f": fj, "n": dup.map(|d| d as i64).unwrap_or(-1)}), &mut out);
        let plain = Rc::new(f.as_ref().clone());
        let found = guarded(|| env.find(&plain)).ok();
        let cleaned = guarded(|| env.clean(Rc::clone(&f))).ok();
        emit(json!({"k": "find", "f": fj, "same": found.map(|x| Rc::ptr_eq(&x, &f)).unwrap_or(false),
                    "clean_same": cleaned.map(|x| Rc::ptr_eq(&x, &f)).unwrap_or(false)}), &mut out);
        n += 4;
    }
    // name2var / usize2var
    for text in ["a & b | c", "exists zz # zz | q1", "x", "true", "lfp X # a | X"] {
        if let Ok(Ok(pf)) = parse(text, None) {
            let vars: Vec<String> = pf.vars.iter().map(|v| v.name.as_ref().clone()).collect();
            let back: Vec<String> = (0..vars.len()).map(|i| pf.usize2var(i).name.as_ref().clone()).collect();
            for name in vars.iter().cloned().chain(vec!["nope".to_string()]) {
                let res = pf.name2var(&name).map(|v| pf.vars.iter().position(|w| w.id == v.id).map(|p| p + 1).unwrap_or(0)).unwrap_or(0);
                emit(json!({"k": "name2var", "vars": vars, "name": name, "res": res, "back": back}), &mut out);
                n += 1;
            }
        }
    }
    // named definitions
    let pad = "(a | -a) & (b | -b) & (c | -c) & ";
    let mains = ["({d1} | a)", "({d1} & {d2})", "(if {d1} then b else {d2})", "(exists a # {d1} & a)", "([{d1}, {d2}, c] >= 2)", "({d1} <=> {undefined})",
                 "(lfp X # {s1} | (X & c))", "(-{d2} ^ b)"];
    let def_texts = ["a & b", "b | c", "a ^ c", "true", "-a", "exists b # b & c", "[a, b] = 1"];
    for _ in 0..count {
        let main = format!("{}{}", pad, mains[r.gen_range(0..mains.len())]);
        let pf = match parse(&main, None) {
            Ok(Ok(pf)) => pf,
            _ => continue,
        };
        let m: HashMap<String, String> = pf.vars.iter().enumerate().map(|(i, v)| (v.name.as_ref().clone(), format!("n{}", i + 1))).collect();
        let mut defs = vec![];
        let mut get_ok = true;
        for dn in ["d1", "d2", "s1"] {
            let dt = if dn == "s1" { "X & a" } else { def_texts[r.gen_range(0..def_texts.len())] };
            let as_bdd = dn != "s1" && r.gen_bool(0.5);
            let dpf = match parse(dt, Some(pf.vars.clone())) {
                Ok(Ok(d)) => d,
                _ => continue,
            };
            if as_bdd {
                // evaluate the definition in the main formula's environment
                let mut rd = std::io::BufReader::new(dt.as_bytes());
                let d2 = ParsedFormula::new_with_env(Rc::clone(&pf.env), &mut rd, Some(pf.vars.clone())).expect("def");
                let b = d2.eval();
                let names: Vec<String> = pf.vars.iter().map(|v| v.name.as_ref().clone()).collect();
                defs.push(json!([dn, "bdd", truth_table(&b, &names)]));
                pf.define(dn, ReferenceContents::BDD(Rc::clone(&b)));
                get_ok &= matches!(pf.get_definition(dn), Some(ReferenceContents::BDD(x)) if Rc::ptr_eq(&x, &b));
            } else {
                defs.push(json!([dn, "syntax", canon(&tree_json(&dpf.bdd), &m)]));
                pf.define(dn, ReferenceContents::Syntax(dpf.bdd.clone()));
                get_ok &= matches!(pf.get_definition(dn), Some(ReferenceContents::Syntax(x)) if x == dpf.bdd);
            }
        }
        get_ok &= pf.get_definition("undefined").is_none();
        let names: Vec<String> = pf.vars.iter().map(|v| v.name.as_ref().clone()).collect();
        let rec = match guarded(|| pf.eval()) {
            Ok(res) => json!({"k": "defs", "text": main, "ast": canon(&tree_json(&pf.bdd), &m), "defs": defs, "tt": truth_table(&res, &names), "get_ok": get_ok}),
            Err(msg) => json!({"k": "outcome", "text": main, "panic": msg}),
        };
        emit(rec, &mut out);
        n += 1;
    }
    // the bdd! macro
    let macros: Vec<(&str, anyhow::Result<Rc<BDD<NamedSymbol>>>)> = vec![
        both!(a & b | c),
        both!(exists a # a ^ b),
        both!([a, b, c] >= 2),
        both!(if a then b else c),
        both!(gfp X # a & X),
        both!(-(a => b)),
    ];
    for (text, res) in macros {
        let rec = match (parse(text, None), res) {
            (Ok(Ok(pf)), Ok(b)) => {
                let m: HashMap<String, String> = pf.vars.iter().enumerate().map(|(i, v)| (v.name.as_ref().clone(), format!("n{}", i + 1))).collect();
                let mut names: Vec<String> = pf.vars.iter().map(|v| v.name.as_ref().clone()).collect();
                let mut ast = canon(&tree_json(&pf.bdd), &m);
                // pad to three names
                while names.len() < 3 {
                    names.push(format!("__pad{}", names.len()));
                }
                if ast.is_null() {
                    ast = json!(["true"]);
                }
                json!({"k": "macro", "text": text, "ast": ast, "tt": truth_table(&b, &names)})
            }
            _ => json!({"k": "outcome", "text": text, "panic": "bdd! failed"}),
        };
        emit(rec, &mut out);
        n += 1;
    }
    out.flush().ok();
    json!({"summary": {"records": n}})
}
