//! Formula language: conversions between the real parser's data and the specification's JSON forms,
//! the token speller, and spec -> impl replay of MC_Lang cases (C01, C06, C08, C09).
use std::collections::{HashMap, HashSet};
use std::io::Write;
use std::rc::Rc;

use rand::rngs::StdRng;
use rand::Rng;
use rsbdd::bdd::BDD;
use rsbdd::parser::{
    BinaryOperator, CountableOperator, ParsedFormula, QuantifierType, SymbolicBDD, SymbolicBDDToken,
};
use rsbdd::NamedSymbol;
use serde_json::{json, Value};

use crate::util::*;

pub const NUM_CAP: usize = 1_000_000;

pub fn binop_name(op: &BinaryOperator) -> &'static str {
    match op {
        BinaryOperator::And => "and",
        BinaryOperator::Or => "or",
        BinaryOperator::Xor => "xor",
        BinaryOperator::Nor => "nor",
        BinaryOperator::Nand => "nand",
        BinaryOperator::Implies => "implies",
        BinaryOperator::ImpliesInv => "impliesinv",
        BinaryOperator::Iff => "iff",
    }
}

pub fn cmp_name(op: &CountableOperator) -> &'static str {
    match op {
        CountableOperator::AtMost => "atmost",
        CountableOperator::LessThan => "lessthan",
        CountableOperator::AtLeast => "atleast",
        CountableOperator::MoreThan => "morethan",
        CountableOperator::Exactly => "exactly",
    }
}

/// syntax tree -> the specification's tuple form (names as strings)
pub fn tree_json(t: &SymbolicBDD) -> Value {
    match t {
        SymbolicBDD::False => json!(["false"]),
        SymbolicBDD::True => json!(["true"]),
        SymbolicBDD::Var(v) => json!(["var", v.name.as_ref()]),
        SymbolicBDD::Not(f) => json!(["not", tree_json(f)]),
        SymbolicBDD::Quantifier(q, vs, f) => json!([
            "q",
            match q {
                QuantifierType::Exists => "exists",
                QuantifierType::Forall => "forall",
            },
            vs.iter().map(|v| v.name.as_ref().clone()).collect::<Vec<_>>(),
            tree_json(f)
        ]),
        SymbolicBDD::CountableConst(op, fs, n) => {
            json!(["cc", cmp_name(op), fs.iter().map(tree_json).collect::<Vec<_>>(), (*n).min(NUM_CAP)])
        }
        SymbolicBDD::CountableVariable(op, l, r) => json!([
            "cv",
            cmp_name(op),
            l.iter().map(tree_json).collect::<Vec<_>>(),
            r.iter().map(tree_json).collect::<Vec<_>>()
        ]),
        SymbolicBDD::FixedPoint(v, init, f) => json!(["fix", v.name.as_ref(), init, tree_json(f)]),
        SymbolicBDD::Ite(c, t, e) => json!(["ite", tree_json(c), tree_json(t), tree_json(e)]),
        SymbolicBDD::BinaryOp(op, l, r) => json!(["bin", binop_name(op), tree_json(l), tree_json(r)]),
        SymbolicBDD::Subtree(_) => json!(["subtree"]),
        SymbolicBDD::Reference(n) => json!(["ref", n]),
    }
}

/// real token -> the specification's tuple form
pub fn token_json(t: &SymbolicBDDToken) -> Value {
    use SymbolicBDDToken as T;
    match t {
        T::Var(v) => json!(["var", v.name.as_ref()]),
        T::Countable(n) => json!(["num", (*n).min(NUM_CAP)]),
        T::Reference(n) => json!(["ref", n]),
        T::And => json!(["and"]),
        T::Or => json!(["or"]),
        T::Not => json!(["not"]),
        T::Xor => json!(["xor"]),
        T::Nor => json!(["nor"]),
        T::Nand => json!(["nand"]),
        T::Implies => json!(["implies"]),
        T::ImpliesInv => json!(["impliesinv"]),
        T::Iff => json!(["iff"]),
        T::If => json!(["if"]),
        T::Then => json!(["then"]),
        T::Else => json!(["else"]),
        T::Exists => json!(["exists"]),
        T::Forall => json!(["forall"]),
        T::Eq => json!(["eq"]),
        T::Geq => json!(["geq"]),
        T::Gt => json!(["gt"]),
        T::Lt => json!(["lt"]),
        T::OpenParen => json!(["("]),
        T::CloseParen => json!([")"]),
        T::OpenSquare => json!(["["]),
        T::CloseSquare => json!(["]"]),
        T::Comma => json!([","]),
        T::False => json!(["false"]),
        T::True => json!(["true"]),
        T::LFP => json!(["lfp"]),
        T::GFP => json!(["gfp"]),
        T::Hash => json!(["hash"]),
        T::Eof => json!(["eof"]),
    }
}

/// every spelling of a token kind
pub fn spellings(kind: &str) -> &'static [&'static str] {
    match kind {
        "and" => &["and", "&", "*"],
        "or" => &["or", "|", "+"],
        "not" => &["not", "!", "-"],
        "xor" => &["xor", "^"],
        "nor" => &["nor"],
        "nand" => &["nand"],
        "implies" => &["implies", "in", "=>"],
        "impliesinv" => &["<="],
        "iff" => &["iff", "eq", "<=>"],
        "exists" => &["exists", "any"],
        "forall" => &["forall", "all"],
        "if" => &["if"],
        "then" => &["then"],
        "else" => &["else"],
        "true" => &["true"],
        "false" => &["false"],
        "lfp" => &["lfp", "mu"],
        "gfp" => &["gfp", "nu"],
        "hash" => &["#"],
        "eq" => &["="],
        "geq" => &[">="],
        "gt" => &[">"],
        "lt" => &["<"],
        "(" => &["("],
        ")" => &[")"],
        "[" => &["["],
        "]" => &["]"],
        "," => &[","],
        _ => &[],
    }
}

fn wordy(s: &str) -> bool {
    s.chars().all(|c| c.is_alphanumeric() || c == '_' || c == '\'')
}

/// Render a token sequence (spec form, without or with the final eof) as text: spelling chosen per
/// occurrence, random whitespace / comments / stray separator characters between tokens.
pub fn spell(tokens: &[Value], r: &mut StdRng, plain: bool) -> String {
    let mut out = String::new();
    let mut prev: Option<String> = None;
    let filler = |r: &mut StdRng, must: bool| -> String {
        if plain {
            return if must { " ".into() } else { "".into() };
        }
        let mut s = String::new();
        let n = if must { r.gen_range(1..3) } else { r.gen_range(0..2) };
        for _ in 0..n {
            s.push_str(match r.gen_range(0..18) {
                // separators WITHOUT blanks around them: a comment or a character outside the alphabet is the only
                // thing between two lexemes
                14 => "\"x\"",
                15 => "\"\"",
                16 => "$",
                17 => "\u{20AC}",
                0 => "\n",
                1 => "\t",
                2 => "  ",
                3 => " \"a comment & ( [\" ",
                4 => " $ ",
                5 => " ; ",
                6 => " \u{20AC} ",
                7 => " . ",
                8 => " \"\" ",
                9 => " @ ",
                _ => " ",
            });
        }
        s
    };
    out.push_str(&filler(r, false));
    for t in tokens {
        let kind = t[0].as_str().expect("token kind");
        let lex: String = match kind {
            "eof" => continue,
            "var" => t[1].as_str().expect("name").to_string(),
            "ref" => format!("{{{}}}", t[1].as_str().expect("name")),
            "num" => {
                let n = t[1].as_u64().expect("num");
                if n as usize == NUM_CAP {
                    // the specification's cap stands for any literal beyond every list length
                    ["1000000", "4294967296", "9223372036854775807", "9223372036854775808", "18446744073709551615", "0018446744073709551615"]
                        [r.gen_range(0..6)]
                    .to_string()
                } else if !plain && r.gen_range(0..6) == 0 {
                    format!("0{}", n)
                } else {
                    format!("{}", n)
                }
            }
            k => {
                let sp = spellings(k);
                if sp.is_empty() {
                    panic!("harness: no spelling for token {}", k);
                }
                if plain {
                    sp[sp.len() - 1].to_string()
                } else {
                    sp[r.gen_range(0..sp.len())].to_string()
                }
            }
        };
        if let Some(p) = &prev {
            // a separator is needed between two word-like lexemes and (conservatively) between two
            // operator symbols that could merge into another symbol
            let both_wordy = wordy(p) && wordy(&lex);
            let brackets = |s: &str| matches!(s, "(" | ")" | "[" | "]" | "," | "#");
            let both_sym = !wordy(p) && !wordy(&lex) && !brackets(p) && !brackets(&lex) && !p.starts_with('{') && !lex.starts_with('{');
            out.push_str(&filler(r, both_wordy || both_sym));
        }
        out.push_str(&lex);
        prev = Some(lex);
    }
    out.push_str(&filler(r, false));
    out
}

/// value of a diagram under an assignment given by name
pub fn value(b: &BDD<NamedSymbol>, asg: &HashMap<String, bool>) -> bool {
    match b {
        BDD::False => false,
        BDD::True => true,
        BDD::Choice(t, v, f) => {
            if *asg.get(v.name.as_ref()).unwrap_or(&false) {
                value(t, asg)
            } else {
                value(f, asg)
            }
        }
    }
}

pub fn support(b: &BDD<NamedSymbol>, acc: &mut HashSet<String>) {
    if let BDD::Choice(t, v, f) = b {
        acc.insert(v.name.as_ref().clone());
        support(t, acc);
        support(f, acc);
    }
}

/// is the diagram ordered (strictly increasing ids along every path) and reduced?
pub fn well_formed(b: &BDD<NamedSymbol>, above: Option<usize>) -> bool {
    match b {
        BDD::Choice(t, v, f) => {
            above.map(|a| v.id > a).unwrap_or(true)
                && t.as_ref() != f.as_ref()
                && well_formed(t, Some(v.id))
                && well_formed(f, Some(v.id))
        }
        _ => true,
    }
}

/// truth table over `names` (row j, 0-based: names[i] gets the i-th most significant bit of j)
pub fn truth_table(b: &BDD<NamedSymbol>, names: &[String]) -> Vec<u8> {
    let n = names.len();
    (0..(1usize << n))
        .map(|j| {
            let asg: HashMap<String, bool> =
                names.iter().enumerate().map(|(i, nm)| (nm.clone(), (j >> (n - 1 - i)) & 1 == 1)).collect();
            u8::from(value(b, &asg))
        })
        .collect()
}

pub fn parse(text: &str, ordering: Option<Vec<NamedSymbol>>) -> Result<std::io::Result<ParsedFormula>, String> {
    let t = text.to_string();
    guarded(move || {
        let mut rd = std::io::BufReader::new(t.as_bytes());
        ParsedFormula::new(&mut rd, ordering)
    })
}

fn names_of(v: &Value) -> Vec<String> {
    v.as_array().expect("names").iter().map(|x| x.as_str().expect("name").to_string()).collect()
}

fn first_appearance(tokens: &[Value]) -> Vec<String> {
    let mut seen = vec![];
    for t in tokens {
        if t[0] == "var" {
            let n = t[1].as_str().expect("name").to_string();
            if !seen.contains(&n) {
                seen.push(n);
            }
        }
    }
    seen
}

/// replay-lang <cases.ndjson> <progress-file> <skip>
/// Each case (written by MC_Lang): tree, token sentences (loose / strict), expected truth table by
/// name, free names, all names, convergence.  Mismatches are tagged with the property they concern.
pub fn replay(args: &[String]) -> Value {
    let text = std::fs::read_to_string(&args[0]).expect("read cases");
    let progress = &args[1];
    let skip: usize = args[2].parse().expect("skip");
    let mut r = rng(53);
    let (mut cases, mut evals, mut mism) = (0u64, 0u64, 0u64);
    let mut kinds: HashMap<String, u64> = HashMap::new();
    let mut spell_used: HashSet<String> = HashSet::new();
    let mut samples = vec![];
    let mut nontrivial = 0u64;
    let mut report = |tag: &str, prop: &str, text: &str, detail: Value| {
        println!("{}", json!({"mismatch": {"tag": tag, "prop": prop, "text": text, "detail": detail}}));
    };
    for (ci, line) in text.lines().filter(|l| !l.trim().is_empty()).enumerate() {
        if ci < skip {
            continue;
        }
        let c: Value = serde_json::from_str(line).expect("case json");
        cases += 1;
        let names = names_of(&c["names"]);
        let conv = c["conv"].as_bool().unwrap_or(false);
        // the fourth rendering is parsed with a PARTIAL ordering (every other name, sparse ids that do not start at 0): the names
        // it does not list get their ids from the tokenizer
        let variants = [("loose", false), ("strict", false), ("loose", true), ("loose", false)];
        for (vi, (which, plain)) in variants.iter().enumerate() {
            let toks = c[*which].as_array().expect("tokens");
            let txt = spell(toks, &mut r, *plain);
            std::fs::write(progress, format!("{}\n{}", ci, txt)).ok();
            for t in toks {
                spell_used.insert(t[0].as_str().unwrap_or("").to_string());
            }
            // ordering: none, or the spec's name order with distinct non-contiguous ids
            let partial = vi == 3;
            let ordering = if vi == 1 {
                Some(names.iter().enumerate().map(|(i, n)| NamedSymbol { name: Rc::new(n.clone()), id: 3 + 4 * i }).collect::<Vec<_>>())
            } else if partial {
                Some(names.iter().enumerate().filter(|(i, _)| i % 2 == ci % 2).map(|(i, n)| NamedSymbol { name: Rc::new(n.clone()), id: if ci % 4 < 2 { 1 + i } else { 1 + 3 * i } }).collect::<Vec<_>>())
            } else {
                None
            };
            let with_order = ordering.is_some() && !partial;
            let pf = match parse(&txt, ordering) {
                Err(m) => {
                    mism += 1;
                    *kinds.entry("panic".into()).or_insert(0) += 1;
                    report("panic", "C12", &txt, json!({"stage": "parse", "msg": m}));
                    continue;
                }
                Ok(Err(e)) => {
                    mism += 1;
                    *kinds.entry("rejected".into()).or_insert(0) += 1;
                    report("rejected", "C08", &txt, json!({"error": e.to_string(), "tree": c["t"]}));
                    continue;
                }
                Ok(Ok(pf)) => pf,
            };
            let got_tree = tree_json(&pf.bdd);
            if got_tree != c["t"] {
                mism += 1;
                *kinds.entry("tree".into()).or_insert(0) += 1;
                report("tree", "C08", &txt, json!({"expected": c["t"], "got": got_tree}));
                // the meaning is still compared: a tree that differs may or may not denote the same function
            }
            // names: all variables once, in id order; free variables exact, in id order
            let order: Vec<String> = if with_order {
                let all: HashSet<String> = first_appearance(toks).into_iter().collect();
                names.iter().filter(|n| all.contains(*n)).cloned().collect()
            } else {
                first_appearance(toks)
            };
            let fvset: HashSet<String> = names_of(&c["fv"]).into_iter().collect();
            let exp_free: Vec<String> = order.iter().filter(|n| fvset.contains(*n)).cloned().collect();
            let got_vars: Vec<String> = pf.vars.iter().map(|v| v.name.as_ref().clone()).collect();
            let got_free: Vec<String> = pf.free_vars.iter().map(|v| v.name.as_ref().clone()).collect();
            let has_ref = c["ref"].as_bool().unwrap_or(false);
            if partial {
                // only what the properties demand under a partial ordering: every name once, the same free variables
                let (mut gv, mut ov, mut gf, mut ef) = (got_vars.clone(), order.clone(), got_free.clone(), exp_free.clone());
                gv.sort();
                ov.sort();
                gf.sort();
                ef.sort();
                if gv != ov {
                    mism += 1;
                    *kinds.entry("vars".into()).or_insert(0) += 1;
                    report("vars", "C09", &txt, json!({"expected_set": ov, "got": got_vars, "ordering": "partial"}));
                }
                if !has_ref && gf != ef {
                    mism += 1;
                    *kinds.entry("free_vars".into()).or_insert(0) += 1;
                    report("free_vars", "C09", &txt, json!({"expected_set": ef, "got": got_free, "ordering": "partial"}));
                }
            } else if got_vars != order {
                mism += 1;
                *kinds.entry("vars".into()).or_insert(0) += 1;
                report("vars", "C09", &txt, json!({"expected": order, "got": got_vars}));
            }
            if !partial && !has_ref && got_free != exp_free {
                mism += 1;
                *kinds.entry("free_vars".into()).or_insert(0) += 1;
                report("free_vars", "C09", &txt, json!({"expected": exp_free, "got": got_free}));
            }
            if !conv {
                continue; // the specification says a fixed point does not converge: not executed
            }
            evals += 1;
            let res = match guarded(|| pf.eval()) {
                Err(m) => {
                    mism += 1;
                    *kinds.entry("panic".into()).or_insert(0) += 1;
                    report("panic", "C12", &txt, json!({"stage": "eval", "msg": m}));
                    continue;
                }
                Ok(b) => b,
            };
            let tt = truth_table(&res, &names);
            let exp: Vec<u8> = c["tt"].as_array().expect("tt").iter().map(|x| x.as_u64().expect("bit") as u8).collect();
            if tt != exp {
                mism += 1;
                *kinds.entry("truth_table".into()).or_insert(0) += 1;
                report("truth_table", "C01", &txt, json!({"names": names, "expected": exp, "got": tt}));
            }
            let all1 = exp.iter().all(|b| *b == 1);
            let all0 = exp.iter().all(|b| *b == 0);
            if res.is_true() != all1 || res.is_false() != all0 {
                mism += 1;
                *kinds.entry("constant".into()).or_insert(0) += 1;
                report("constant", "C01", &txt, json!({"valid": all1, "unsat": all0, "is_true": res.is_true(), "is_false": res.is_false()}));
            }
            if !well_formed(&res, None) {
                mism += 1;
                *kinds.entry("not_wf".into()).or_insert(0) += 1;
                report("not_wf", "C02", &txt, json!({}));
            }
            let mut sup = HashSet::new();
            support(&res, &mut sup);
            if !has_ref && !sup.iter().all(|n| fvset.contains(n)) {
                mism += 1;
                *kinds.entry("support".into()).or_insert(0) += 1;
                report("support", "C09", &txt, json!({"free": exp_free, "support": sup.iter().collect::<Vec<_>>()}));
            }
            if vi == 0 && !all0 && !all1 {
                nontrivial += 1;
            }
            if samples.len() < 4 && cases % 499 == 3 && vi == 0 {
                samples.push(json!({"text": txt, "tree": c["t"], "tt": exp, "fv": c["fv"]}));
            }
        }
    }
    std::fs::write(progress, "done").ok();
    let mut sp: Vec<_> = spell_used.into_iter().collect();
    sp.sort();
    json!({"summary": {"cases": cases, "evaluations": evals, "mismatches": mism, "kinds": kinds, "token_kinds_spelled": sp,
                        "nonconstant_formulas": nontrivial, "samples": samples}})
}

/// replay-fix <cases.ndjson> <progress-file> <skip>: MC_Lang Mode = "fix" bodies, all four spellings
pub fn replay_fix(args: &[String]) -> Value {
    let text = std::fs::read_to_string(&args[0]).expect("read cases");
    let progress = &args[1];
    let skip: usize = args[2].parse().expect("skip");
    let mut r = rng(59);
    let (mut cases, mut evals, mut mism, mut monotone) = (0u64, 0u64, 0u64, 0u64);
    let mut samples = vec![];
    for (ci, line) in text.lines().filter(|l| !l.trim().is_empty()).enumerate() {
        if ci < skip {
            continue;
        }
        let c: Value = serde_json::from_str(line).expect("case json");
        cases += 1;
        let names = names_of(&c["names"]);
        let body = c["toks"].as_array().expect("toks");
        for (i, x) in names.iter().enumerate() {
            if !c["mono"][i].as_bool().unwrap_or(false) {
                continue;
            }
            monotone += 1;
            for (kw, key) in [("lfp", "lfp"), ("gfp", "gfp")] {
                let mut toks: Vec<Value> = vec![json!([kw]), json!(["var", x]), json!(["hash"])];
                toks.extend(body.iter().cloned());
                let txt = spell(&toks, &mut r, false);
                std::fs::write(progress, format!("{}\n{}", ci, txt)).ok();
                let exp: Vec<u8> = c[key][i].as_array().expect("tt").iter().map(|b| b.as_u64().expect("bit") as u8).collect();
                evals += 1;
                // the variable order is varied: default (first appearance), the specification's name order,
                // and its reverse (as an explicit ordering with non-contiguous ids)
                let ordering = match r.gen_range(0..3) {
                    0 => None,
                    1 => Some(names.iter().enumerate().map(|(k, n)| NamedSymbol { name: Rc::new(n.clone()), id: 2 + 5 * k }).collect::<Vec<_>>()),
                    _ => Some(names.iter().rev().enumerate().map(|(k, n)| NamedSymbol { name: Rc::new(n.clone()), id: 1 + 3 * k }).collect::<Vec<_>>()),
                };
                let got = match parse(&txt, ordering) {
                    Ok(Ok(pf)) => guarded(|| pf.eval()).map(|b| truth_table(&b, &names)),
                    Ok(Err(e)) => Err(format!("rejected: {}", e)),
                    Err(m) => Err(m),
                };
                if got.as_ref().ok() != Some(&exp) {
                    mism += 1;
                    println!("{}", json!({"mismatch": {"tag": "fixpoint", "prop": "C06", "text": txt,
                        "detail": {"names": names, "expected": exp, "got": got.map(|v| json!(v)).unwrap_or_else(|m| json!({"error": m}))}}}));
                }
                if samples.len() < 3 && cases % 211 == 7 {
                    samples.push(json!({"text": txt, "expected": exp}));
                }
            }
        }
    }
    std::fs::write(progress, "done").ok();
    json!({"summary": {"cases": cases, "evaluations": evals, "mismatches": mism, "monotone_bodies": monotone, "samples": samples}})
}

#[allow(dead_code)]
pub fn flush(out: &mut dyn Write) {
    out.flush().ok();
}
