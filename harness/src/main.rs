//! rsbdd-conform: binds the TLA+ specification under /verif/spec to the real rsbdd code.
//!   replay-* : spec -> impl (TLC-generated cases/behaviours are stepped through the real code)
//!   record-* : impl -> spec (the real code is driven; every call is logged as one ndjson event)
mod extras;
mod fuzz;
mod lang;
mod record_bdd;
mod record_env;
mod record_lang;
mod replay_bdd;
mod sets;
mod syntax;
mod util;

use std::io::Write;
use std::path::PathBuf;

fn main() {
    util::silence_panics();
    let args: Vec<String> = std::env::args().collect();
    if args.len() < 2 {
        eprintln!("usage: rsbdd-conform <subcommand> ...");
        std::process::exit(2);
    }
    let stdout = std::io::stdout();
    let out: Box<dyn Write> = Box::new(std::io::BufWriter::new(stdout.lock()));
    let summary = match args[1].as_str() {
        "replay-bdd" => replay_bdd::run(&PathBuf::from(&args[2]), out),
        "record-bdd" => {
            drop(out);
            record_bdd::run(&args[2..])
        }
        "record-env" => {
            drop(out);
            record_env::record(&args[2..])
        }
        "replay-env" => {
            drop(out);
            record_env::replay(&args[2..])
        }
        "replay-set" => {
            drop(out);
            sets::replay(&args[2..])
        }
        "record-set" => {
            drop(out);
            sets::record(&args[2..])
        }
        "exec-set" => {
            drop(out);
            sets::exec(&args[2..])
        }
        "replay-lang" => {
            drop(out);
            lang::replay(&args[2..])
        }
        "replay-fix" => {
            drop(out);
            lang::replay_fix(&args[2..])
        }
        "record-lang" => {
            drop(out);
            record_lang::record(&args[2..])
        }
        "record-text" => {
            drop(out);
            record_lang::record_text(&args[2..])
        }
        "exec-text" => {
            drop(out);
            record_lang::exec_text(&args[2..])
        }
        "describe" => {
            drop(out);
            record_lang::describe(&args[2..])
        }
        "gen-formulas" => {
            drop(out);
            record_lang::gen_formulas(&args[2..])
        }
        "dot-cases" => {
            drop(out);
            record_lang::dot_cases(&args[2..])
        }
        "dot-big" => {
            drop(out);
            record_lang::dot_big(&args[2..])
        }
        "fuzz" => {
            drop(out);
            fuzz::run(&args[2..])
        }
        "probe-files" => {
            drop(out);
            fuzz::probe_files(&args[2..])
        }
        "parse-ast" => {
            drop(out);
            record_lang::parse_ast(&args[2..])
        }
        "record-extras" => {
            drop(out);
            extras::record(&args[2..])
        }
        "exec-lang" => {
            drop(out);
            record_lang::exec(&args[2..])
        }
        "replay-tokens" => {
            drop(out);
            syntax::replay_tokens(&args[2..])
        }
        "replay-chars" => {
            drop(out);
            syntax::replay_chars(&args[2..])
        }
        "exec-env" => {
            drop(out);
            record_env::exec(&args[2..])
        }
        "record-fp" => {
            drop(out);
            record_bdd::record_fp(&args[2..])
        }
        "exec-bdd" => {
            drop(out);
            record_bdd::exec(&args[2..])
        }
        other => {
            eprintln!("unknown subcommand {}", other);
            std::process::exit(2);
        }
    };
    println!("{}", summary);
}
