//! impl -> spec: drive the real BDDEnv and log one ndjson record per public call (at its return).
use std::collections::HashMap;
use std::io::Write;
use std::rc::Rc;

use rand::rngs::StdRng;
use rand::Rng;
use rsbdd::bdd::BDDEnv;
use rsbdd::TruthTableEntry;
use serde_json::{json, Value};

use crate::util::*;

pub struct Rec {
    pub env: BDDEnv<usize>,
    pub env2: BDDEnv<usize>,
    pub nv: usize,
    pub map: Vec<usize>,
    pub inv: HashMap<usize, usize>,
    pub out: Box<dyn Write>,
    pub records: u64,
    pub panics: u64,
    pub kinds: HashMap<String, u64>,
    /// which operands of the next call live in the second environment ("a", "b", "bc"); copied into the record for --replay
    pub foreign: Option<&'static str>,
    /// screening (mode "history"): only every `screen`-th record and every record the harness's own truth-table
    /// oracle finds suspicious is written for TLC; `seen` counts all calls
    pub screen: Option<u64>,
    pub seen: u64,
    pub flagged: u64,
}

impl Rec {
    pub fn new(nv: usize, r: &mut StdRng, out: Box<dyn Write>) -> Self {
        let map = injection(nv + 2, r);
        let inv = inverse(&map);
        Self { env: BDDEnv::new(), env2: BDDEnv::new(), nv, map, inv, out, records: 0, panics: 0, kinds: HashMap::new(), foreign: None, screen: None, seen: 0, flagged: 0 }
    }

    pub fn j(&self, n: &Node) -> Value {
        to_json(n, &self.inv)
    }

    pub fn emit(&mut self, v: Value) {
        let mut v = v;
        if let Some(f) = self.foreign {
            if v["k"] == "panic" {
                v["call"]["foreign"] = json!(f);
            } else {
                v["foreign"] = json!(f);
            }
        }
        self.seen += 1;
        if let Some(period) = self.screen {
            let sus = suspicious(&v, self.nv);
            if sus {
                self.flagged += 1;
            }
            if !sus && self.seen % period != 0 {
                return;
            }
        }
        let k = v["k"].as_str().unwrap_or("?").to_string();
        *self.kinds.entry(k).or_insert(0) += 1;
        self.records += 1;
        writeln!(self.out, "{}", v).ok();
    }

    pub fn emit_panic(&mut self, call: Value, msg: String) {
        self.panics += 1;
        self.emit(json!({"k": "panic", "call": call, "msg": msg}));
    }

    /// all well-formed diagrams over variables v..=nv, built level by level in the real environment
    pub fn all_wf(&self) -> Vec<Node> {
        let mut cur: Vec<Node> = vec![self.env.mk_const(false), self.env.mk_const(true)];
        for v in (1..=self.nv).rev() {
            let mut next = cur.clone();
            for h in &cur {
                for l in &cur {
                    if h != l {
                        next.push(self.env.mk_choice(Rc::clone(h), self.map[v], Rc::clone(l)));
                    }
                }
            }
            cur = next;
        }
        cur
    }

    fn from_table(&self, tt: &[bool], v: usize) -> Node {
        if v > self.nv {
            return self.env.mk_const(tt[0]);
        }
        let half = tt.len() / 2;
        let lo = self.from_table(&tt[..half], v + 1);
        let hi = self.from_table(&tt[half..], v + 1);
        self.env.mk_choice(hi, self.map[v], lo)
    }

    pub fn foreign_from_table(&self, tt: &[bool], v: usize) -> Node {
        if v > self.nv {
            return self.env2.mk_const(tt[0]);
        }
        let half = tt.len() / 2;
        let lo = self.foreign_from_table(&tt[..half], v + 1);
        let hi = self.foreign_from_table(&tt[half..], v + 1);
        self.env2.mk_choice(hi, self.map[v], lo)
    }

    pub fn uniform_node(&self, r: &mut StdRng) -> Node {
        let tt: Vec<bool> = (0..(1usize << self.nv)).map(|_| r.gen_bool(0.5)).collect();
        self.from_table(&tt, 1)
    }

    /// a random function: random truth table of random density, or a random and/or/not/xor term
    pub fn random_node(&self, r: &mut StdRng) -> Node {
        match r.gen_range(0..10) {
            0..=4 => {
                let p: f64 = [0.5, 0.1, 0.9, 0.3, 0.02][r.gen_range(0..5)];
                let tt: Vec<bool> = (0..(1usize << self.nv)).map(|_| r.gen_bool(p)).collect();
                self.from_table(&tt, 1)
            }
            _ => self.random_term(r, 4),
        }
    }

    fn random_term(&self, r: &mut StdRng, depth: usize) -> Node {
        if depth == 0 || r.gen_range(0..6) == 0 {
            return match r.gen_range(0..12) {
                0 => self.env.mk_const(true),
                1 => self.env.mk_const(false),
                _ => self.env.var(self.map[r.gen_range(1..=self.nv)]),
            };
        }
        let a = self.random_term(r, depth - 1);
        match r.gen_range(0..5) {
            0 => self.env.not(a),
            1 => self.env.and(a, self.random_term(r, depth - 1)),
            2 => self.env.or(a, self.random_term(r, depth - 1)),
            3 => self.env.xor(a, self.random_term(r, depth - 1)),
            _ => self.env.ite(a, self.random_term(r, depth - 1), self.random_term(r, depth - 1)),
        }
    }

    pub fn rec_model(&mut self, f: &Node) {
        let call = json!({"k": "model", "f": self.j(f)});
        let ff = Rc::clone(f);
        let env = &self.env;
        match guarded(|| env.model(ff)) {
            Err(m) => self.emit_panic(call, m),
            Ok(m) => {
                let mut infer = vec![];
                for v in 1..=self.nv {
                    let (mm, ff, s) = (Rc::clone(&m), Rc::clone(f), self.map[v]);
                    match guarded(|| (env.infer(mm, s), env.infer(ff, s))) {
                        Ok(((a, b), (c, d))) => {
                            infer.push(json!(["m", v, a, b]));
                            infer.push(json!(["f", v, c, d]));
                        }
                        Err(msg) => {
                            self.emit_panic(json!({"k": "infer", "f": self.j(f), "v": v}), msg);
                            return;
                        }
                    }
                }
                let rec = json!({"k": "model", "f": self.j(f), "m": self.j(&m), "infer": infer});
                self.emit(rec);
            }
        }
    }

    pub fn rec_retain(&mut self, f: &Node) {
        for (name, flt) in [("True", TruthTableEntry::True), ("False", TruthTableEntry::False), ("Any", TruthTableEntry::Any)] {
            let ff = Rc::clone(f);
            let env = &self.env;
            match guarded(|| env.retain_choice_bottom_up(ff, flt)) {
                Ok(r) => {
                    let rec = json!({"k": "retain", "f": self.j(f), "flt": name, "r": self.j(&r)});
                    self.emit(rec)
                }
                Err(m) => self.emit_panic(json!({"k": "retain", "f": self.j(f), "flt": name}), m),
            }
        }
    }

    pub fn rec_bin(&mut self, op: &str, a: &Node, b: &Node) {
        let (x, y) = (Rc::clone(a), Rc::clone(b));
        let env = &self.env;
        let got = guarded(|| match op {
            "and" => env.and(x, y),
            "or" => env.or(x, y),
            "xor" => env.xor(x, y),
            "nor" => env.nor(x, y),
            "nand" => env.nand(x, y),
            "implies" => env.implies(x, y),
            "impliesinv" => env.implies(y, x),
            _ => env.eq(x, y),
        });
        let call = json!({"k": "bin", "op": op, "a": self.j(a), "b": self.j(b)});
        match got {
            Ok(r) => {
                let mut c = call;
                c["r"] = self.j(&r);
                self.emit(c)
            }
            Err(m) => self.emit_panic(call, m),
        }
    }

    pub fn rec_not(&mut self, a: &Node) {
        let x = Rc::clone(a);
        let env = &self.env;
        match guarded(|| env.not(x)) {
            Ok(r) => {
                let rec = json!({"k": "not", "a": self.j(a), "r": self.j(&r)});
                self.emit(rec)
            }
            Err(m) => self.emit_panic(json!({"k": "not", "a": self.j(a)}), m),
        }
    }

    pub fn rec_ite(&mut self, a: &Node, b: &Node, c: &Node) {
        let (x, y, z) = (Rc::clone(a), Rc::clone(b), Rc::clone(c));
        let env = &self.env;
        let call = json!({"k": "ite", "a": self.j(a), "b": self.j(b), "c": self.j(c)});
        match guarded(|| env.ite(x, y, z)) {
            Ok(r) => {
                let mut cc = call;
                cc["r"] = self.j(&r);
                self.emit(cc)
            }
            Err(m) => self.emit_panic(call, m),
        }
    }

    pub fn rec_quant(&mut self, k: &str, vs: &[usize], f: &Node) {
        let syms: Vec<usize> = vs.iter().map(|v| self.map[*v]).collect();
        let x = Rc::clone(f);
        let env = &self.env;
        let call = json!({"k": k, "vs": vs, "f": self.j(f)});
        match guarded(|| if k == "exists" { env.exists(syms, x) } else { env.all(syms, x) }) {
            Ok(r) => {
                let mut cc = call;
                cc["r"] = self.j(&r);
                self.emit(cc)
            }
            Err(m) => self.emit_panic(call, m),
        }
    }

    pub fn rec_cc(&mut self, kind: &str, bs: &[Node], n: i64) {
        let env = &self.env;
        let call = json!({"k": "cc", "kind": kind, "bs": bs.iter().map(|b| self.j(b)).collect::<Vec<_>>(),
                          "n": n.clamp(-1000, 1000), "n_exact": n.to_string()});
        match guarded(|| match kind {
            "aln" => env.aln(bs, n),
            "amn" => env.amn(bs, n),
            _ => env.exn(bs, n),
        }) {
            Ok(r) => {
                let mut cc = call;
                cc["r"] = self.j(&r);
                self.emit(cc)
            }
            Err(m) => self.emit_panic(call, m),
        }
    }

    pub fn rec_cl(&mut self, kind: &str, p: &[Node], q: &[Node]) {
        let env = &self.env;
        let call = json!({"k": "cl", "kind": kind, "p": p.iter().map(|b| self.j(b)).collect::<Vec<_>>(),
                          "q": q.iter().map(|b| self.j(b)).collect::<Vec<_>>()});
        match guarded(|| match kind {
            "leq" => env.count_leq(p, q),
            "lt" => env.count_lt(p, q),
            "geq" => env.count_geq(p, q),
            "gt" => env.count_gt(p, q),
            _ => env.count_eq(p, q),
        }) {
            Ok(r) => {
                let mut cc = call;
                cc["r"] = self.j(&r);
                self.emit(cc)
            }
            Err(m) => self.emit_panic(call, m),
        }
    }
}

// ---------------------------------------------------------------------------------------------------
// A cheap truth-table oracle (u128, at most 7 variables) used ONLY to decide which records of a long history are
// worth TLC's time; Trace_Bdd remains the judge of every record that is written.

fn var_mask(v: usize, nv: usize) -> u128 {
    let mut m = 0u128;
    for j in 0..(1usize << nv) {
        if (j >> (nv - v)) & 1 == 1 {
            m |= 1u128 << j;
        }
    }
    m
}

fn full(nv: usize) -> u128 {
    if nv == 7 { u128::MAX } else { (1u128 << (1usize << nv)) - 1 }
}

fn tt_of(n: &Value, nv: usize) -> Option<u128> {
    let a = n.as_array()?;
    if a.len() == 1 {
        return Some(if a[0].as_i64()? == 1 { full(nv) } else { 0 });
    }
    let v = a[0].as_u64()? as usize;
    if v < 1 || v > nv {
        return None;
    }
    let m = var_mask(v, nv);
    Some((m & tt_of(&a[1], nv)?) | (!m & full(nv) & tt_of(&a[2], nv)?))
}

fn wf_json(n: &Value, above: u64) -> bool {
    match n.as_array() {
        Some(a) if a.len() == 1 => true,
        Some(a) if a.len() == 3 => {
            let v = a[0].as_u64().unwrap_or(0);
            v > above && a[1] != a[2] && wf_json(&a[1], v) && wf_json(&a[2], v)
        }
        _ => false,
    }
}

fn mentions_json(n: &Value, acc: &mut Vec<u64>) {
    if let Some(a) = n.as_array() {
        if a.len() == 3 {
            acc.push(a[0].as_u64().unwrap_or(0));
            mentions_json(&a[1], acc);
            mentions_json(&a[2], acc);
        }
    }
}

fn depends(t: u128, v: usize, nv: usize) -> bool {
    let m = var_mask(v, nv);
    let sh = 1usize << (nv - v);
    ((t & m) >> sh) != (t & !m & full(nv))
}

fn is_cube_json(n: &Value) -> bool {
    match n.as_array() {
        Some(a) if a.len() == 1 => true,
        Some(a) if a.len() == 3 => {
            let f = json!([0]);
            (a[1] == f && is_cube_json(&a[2])) || (a[2] == f && is_cube_json(&a[1]))
        }
        _ => false,
    }
}

/// true = worth validating (the oracle disagrees or does not understand the record)
fn suspicious(v: &Value, nv: usize) -> bool {
    if nv > 7 {
        return true;
    }
    let f = full(nv);
    let t = |x: &Value| tt_of(x, nv);
    let ok: Option<bool> = (|| {
        Some(match v["k"].as_str()? {
            "bin" => {
                let (a, b, r) = (t(&v["a"])?, t(&v["b"])?, t(&v["r"])?);
                let e = match v["op"].as_str()? {
                    "and" => a & b,
                    "or" => a | b,
                    "xor" => a ^ b,
                    "nor" => !(a | b) & f,
                    "nand" => !(a & b) & f,
                    "implies" => (!a | b) & f,
                    "impliesinv" => (!b | a) & f,
                    _ => !(a ^ b) & f,
                };
                r == e && wf_json(&v["r"], 0)
            }
            "not" => t(&v["r"])? == !t(&v["a"])? & f && wf_json(&v["r"], 0),
            "ite" => {
                let (a, b, c, r) = (t(&v["a"])?, t(&v["b"])?, t(&v["c"])?, t(&v["r"])?);
                r == ((a & b) | (!a & c)) & f && wf_json(&v["r"], 0)
            }
            k @ ("exists" | "all") => {
                let mut cur = t(&v["f"])?;
                for x in v["vs"].as_array()? {
                    let x = x.as_u64()? as usize;
                    if x < 1 || x > nv {
                        continue;
                    }
                    let m = var_mask(x, nv);
                    let sh = 1usize << (nv - x);
                    let hi = (cur & m) >> sh;
                    let lo = cur & !m & f;
                    let c = if k == "exists" { hi | lo } else { hi & lo };
                    cur = (c | (c << sh)) & f;
                }
                t(&v["r"])? == cur && wf_json(&v["r"], 0)
            }
            "model" => {
                let (ff, m) = (t(&v["f"])?, t(&v["m"])?);
                let mut ms = vec![];
                mentions_json(&v["m"], &mut ms);
                (m == 0) == (ff == 0) && m & !ff == 0 && is_cube_json(&v["m"]) && wf_json(&v["m"], 0)
                    && ms.iter().all(|x| depends(ff, *x as usize, nv))
                    && v["infer"].as_array()?.iter().all(|e| {
                        let src = if e[0] == "m" { m } else { ff };
                        let x = e[1].as_u64().unwrap_or(1) as usize;
                        let forced = src & !var_mask(x, nv) == 0;
                        (e[2] == true && e[3] == true) == forced
                    })
            }
            "retain" => {
                let (ff, r) = (t(&v["f"])?, t(&v["r"])?);
                let (mut ms, mut fs) = (vec![], vec![]);
                mentions_json(&v["r"], &mut ms);
                mentions_json(&v["f"], &mut fs);
                let dir = match v["flt"].as_str()? {
                    "True" => ff & !r == 0,
                    "False" => r & !ff == 0,
                    _ => v["r"] == v["f"],
                };
                dir && wf_json(&v["r"], 0) && ms.iter().all(|x| fs.contains(x))
            }
            _ => false,
        })
    })();
    ok != Some(true)
}

const BINOPS: [&str; 8] = ["and", "or", "xor", "nor", "nand", "implies", "impliesinv", "iff"];

/// record-bdd <out.ndjson> <nv> <mode> <count> <kinds,comma-separated>
///   mode allwf : every well-formed diagram over nv variables (kinds model, retain, not)
///   mode random: `count` random operand tuples per kind
pub fn run(args: &[String]) -> Value {
    let out_path = &args[0];
    let nv: usize = args[1].parse().expect("nv");
    let mode = args[2].as_str();
    let count: usize = args[3].parse().expect("count");
    let kinds: Vec<&str> = args[4].split(',').collect();
    let mut r = rng(23 + nv as u64);
    let out: Box<dyn Write> = Box::new(std::io::BufWriter::new(std::fs::File::create(out_path).expect("create")));
    let mut rec = Rec::new(nv, &mut r, out);
    let mut distinct: std::collections::HashSet<u64> = Default::default();
    if mode == "allwf" {
        let all = rec.all_wf();
        for f in &all {
            distinct.insert(f.get_hash());
            for k in &kinds {
                match *k {
                    "model" => rec.rec_model(f),
                    "retain" => rec.rec_retain(f),
                    "not" => rec.rec_not(f),
                    _ => panic!("harness: kind {} not supported in allwf mode", k),
                }
            }
        }
    } else if mode == "history" {
        // ONE environment, a bounded pool of live handles (results replace random slots, so old diagrams are
        // dropped while the node table keeps growing), half of the operands are new random tables
        rec.screen = Some(std::env::var("VERIF_SCREEN").ok().and_then(|x| x.parse().ok()).unwrap_or(50));
        let mut pool: Vec<Node> = (0..8).map(|_| rec.uniform_node(&mut r)).collect();
        let cap = 48;
        let only_queries = kinds.iter().all(|k| *k == "model" || *k == "retain");
        let mut max_table = 0usize;
        for step in 0..count {
            let k = kinds[r.gen_range(0..kinds.len())];
            let mut operand = |rec: &Rec, r: &mut StdRng| -> Node {
                // kinds that feed nothing back into the pool (model, retain) get new functions almost every time
                match r.gen_range(0..10) {
                    0 => Rc::clone(&pool[r.gen_range(0..pool.len())]),
                    1..=4 if !only_queries => Rc::clone(&pool[r.gen_range(0..pool.len())]),
                    1..=7 => rec.uniform_node(r),
                    _ => rec.random_node(r),
                }
            };
            let f = operand(&rec, &mut r);
            distinct.insert(f.get_hash());
            let keep: Option<Node> = match k {
                "model" => {
                    rec.rec_model(&f);
                    None
                }
                "retain" => {
                    rec.rec_retain(&f);
                    None
                }
                "not" => {
                    rec.rec_not(&f);
                    guarded(|| rec.env.not(Rc::clone(&f))).ok()
                }
                "bin" => {
                    let g = operand(&rec, &mut r);
                    let op = BINOPS[r.gen_range(0..8)];
                    rec.rec_bin(op, &f, &g);
                    guarded(|| match op {
                        "and" => rec.env.and(Rc::clone(&f), Rc::clone(&g)),
                        "or" => rec.env.or(Rc::clone(&f), Rc::clone(&g)),
                        "xor" => rec.env.xor(Rc::clone(&f), Rc::clone(&g)),
                        "nor" => rec.env.nor(Rc::clone(&f), Rc::clone(&g)),
                        "nand" => rec.env.nand(Rc::clone(&f), Rc::clone(&g)),
                        "implies" => rec.env.implies(Rc::clone(&f), Rc::clone(&g)),
                        "impliesinv" => rec.env.implies(Rc::clone(&g), Rc::clone(&f)),
                        _ => rec.env.eq(Rc::clone(&f), Rc::clone(&g)),
                    })
                    .ok()
                }
                "ite" => {
                    let g = operand(&rec, &mut r);
                    let h = operand(&rec, &mut r);
                    rec.rec_ite(&f, &g, &h);
                    guarded(|| rec.env.ite(Rc::clone(&f), Rc::clone(&g), Rc::clone(&h))).ok()
                }
                "quant" => {
                    let len = r.gen_range(0..=3);
                    let vs: Vec<usize> = (0..len).map(|_| r.gen_range(1..=nv)).collect();
                    let ex = r.gen_bool(0.5);
                    rec.rec_quant(if ex { "exists" } else { "all" }, &vs, &f);
                    let syms: Vec<usize> = vs.iter().map(|v| rec.map[*v]).collect();
                    guarded(|| if ex { rec.env.exists(syms, Rc::clone(&f)) } else { rec.env.all(syms, Rc::clone(&f)) }).ok()
                }
                _ => panic!("harness: kind {} not supported in history mode", k),
            };
            if let Some(n) = keep {
                if pool.len() < cap {
                    pool.push(n);
                } else {
                    let i = r.gen_range(0..cap);
                    pool[i] = n;
                }
            }
            if step % 64 == 0 {
                max_table = max_table.max(rec.env.size());
            }
        }
        max_table = max_table.max(rec.env.size());
        rec.out.flush().ok();
        return json!({"summary": {"records": rec.records, "panics": rec.panics, "kinds": rec.kinds, "nv": nv, "calls": rec.seen,
                                   "flagged_by_screen": rec.flagged, "max_table_size": max_table,
                                   "distinct_functions": distinct.len(), "symbols": rec.map[1..].to_vec()}});
    } else {
        // mode "uniform": operands are uniformly random truth tables (every function equally likely)
        let uniform = mode == "uniform";
        for _ in 0..count {
            for k in &kinds {
                let f = if uniform { rec.uniform_node(&mut r) } else { rec.random_node(&mut r) };
                distinct.insert(f.get_hash());
                match *k {
                    "model" => rec.rec_model(&f),
                    "retain" => rec.rec_retain(&f),
                    "not" => rec.rec_not(&f),
                    "bin" => {
                        let g = if uniform { rec.uniform_node(&mut r) } else { rec.random_node(&mut r) };
                        rec.rec_bin(BINOPS[r.gen_range(0..8)], &f, &g)
                    }
                    "xbin" => {
                        // the second operand comes from ANOTHER environment (as BDDSet::new sets or a {definition} do)
                        let g = { let tt: Vec<bool> = (0..(1usize << nv)).map(|_| r.gen_bool(0.5)).collect(); rec.foreign_from_table(&tt, 1) };
                        if r.gen_bool(0.5) {
                            rec.foreign = Some("b");
                            rec.rec_bin(BINOPS[r.gen_range(0..8)], &f, &g)
                        } else {
                            rec.foreign = Some("a");
                            rec.rec_bin(BINOPS[r.gen_range(0..8)], &g, &f)
                        }
                        rec.foreign = None;
                    }
                    k2 @ ("xmodel" | "xretain" | "xnot" | "xquant") => {
                        // the operand itself lives in ANOTHER environment
                        let g = { let dens = if r.gen_bool(0.5) { 0.5 } else { 0.15 }; let tt: Vec<bool> = (0..(1usize << nv)).map(|_| r.gen_bool(dens)).collect(); rec.foreign_from_table(&tt, 1) };
                        rec.foreign = Some("af");
                        match k2 {
                            "xmodel" => rec.rec_model(&g),
                            "xretain" => rec.rec_retain(&g),
                            "xnot" => rec.rec_not(&g),
                            _ => {
                                let len = r.gen_range(0..=3);
                                let vs: Vec<usize> = (0..len).map(|_| r.gen_range(1..=nv)).collect();
                                rec.rec_quant(if r.gen_bool(0.5) { "exists" } else { "all" }, &vs, &g)
                            }
                        }
                        rec.foreign = None;
                    }
                    "xcc" => {
                        // every operand of a counting comparison lives in another environment
                        let len = r.gen_range(1..=4);
                        let mut bs: Vec<Node> = (0..len)
                            .map(|_| { let tt: Vec<bool> = (0..(1usize << nv)).map(|_| r.gen_bool(0.5)).collect(); rec.foreign_from_table(&tt, 1) })
                            .collect();
                        if len >= 2 && r.gen_bool(0.3) {
                            bs[1] = Rc::clone(&bs[0]);
                        }
                        rec.foreign = Some("bs");
                        if r.gen_bool(0.6) {
                            let n: i64 = r.gen_range(-1..=len as i64 + 1);
                            rec.rec_cc(["aln", "amn", "exn"][r.gen_range(0..3)], &bs, n);
                        } else {
                            let cut = r.gen_range(0..=len);
                            rec.rec_cl(["leq", "lt", "geq", "gt", "eq"][r.gen_range(0..5)], &bs[..cut], &bs[cut..]);
                        }
                        rec.foreign = None;
                    }
                    "xite" => {
                        let g = { let tt: Vec<bool> = (0..(1usize << nv)).map(|_| r.gen_bool(0.5)).collect(); rec.foreign_from_table(&tt, 1) };
                        let h = { let tt: Vec<bool> = (0..(1usize << nv)).map(|_| r.gen_bool(0.5)).collect(); rec.foreign_from_table(&tt, 1) };
                        rec.foreign = Some("bc");
                        rec.rec_ite(&f, &g, &h);
                        rec.foreign = None;
                    }
                    "ite" => {
                        let g = rec.random_node(&mut r);
                        let h = rec.random_node(&mut r);
                        rec.rec_ite(&f, &g, &h)
                    }
                    "quant" => {
                        let len = r.gen_range(0..=4);
                        let vs: Vec<usize> = (0..len).map(|_| r.gen_range(1..=nv + 1)).collect();
                        rec.rec_quant(if r.gen_bool(0.5) { "exists" } else { "all" }, &vs, &f)
                    }
                    "cc" => {
                        let len = r.gen_range(0..=5);
                        let mut bs: Vec<Node> = (0..len).map(|_| rec.random_node(&mut r)).collect();
                        if len >= 2 && r.gen_bool(0.3) {
                            bs[1] = Rc::clone(&bs[0]);
                        }
                        let n: i64 = match r.gen_range(0..10) {
                            0 => -r.gen_range(1..4),
                            1 => len as i64 + r.gen_range(1..3),
                            2 => [i64::MAX - 6, i64::MIN + 6, 1 << 31, -(1 << 31), 1 << 62][r.gen_range(0..5)],
                            _ => r.gen_range(0..=len as i64),
                        };
                        rec.rec_cc(["aln", "amn", "exn"][r.gen_range(0..3)], &bs, n)
                    }
                    "ccl" => {
                        // long lists: the recursion of cmp_count is exponential in the list length, 12 is still affordable
                        if r.gen_bool(0.6) {
                            let len = if r.gen_bool(0.3) { r.gen_range(9..=12) } else { r.gen_range(4..=8) };
                            // half of the lists repeat one to three operands (all true / all false together is then
                            // reachable, the rows where out-of-range bounds matter)
                            let mut bs: Vec<Node> = if r.gen_bool(0.5) {
                                let pool: Vec<Node> = (0..r.gen_range(1..=3)).map(|_| rec.random_node(&mut r)).collect();
                                (0..len).map(|_| Rc::clone(&pool[r.gen_range(0..pool.len())])).collect()
                            } else {
                                (0..len).map(|_| rec.random_node(&mut r)).collect()
                            };
                            if r.gen_bool(0.4) {
                                let i = r.gen_range(0..len);
                                let j = r.gen_range(0..len);
                                bs[i] = Rc::clone(&bs[j]);
                            }
                            let n: i64 = match r.gen_range(0..4) {
                                0 => -1,
                                1 => len as i64 + 1,
                                _ => r.gen_range(0..=len as i64),
                            };
                            rec.rec_cc(["aln", "amn", "exn"][r.gen_range(0..3)], &bs, n)
                        } else {
                            let (lp, lq) = if r.gen_bool(0.25) { (r.gen_range(1..=3), r.gen_range(9..=10)) } else { (r.gen_range(2..=5), r.gen_range(2..=5)) };
                            let pool: Vec<Node> = (0..r.gen_range(1..=3)).map(|_| rec.random_node(&mut r)).collect();
                            let pooled = r.gen_bool(0.5);
                            let mut pick = |r: &mut StdRng| if pooled { Rc::clone(&pool[r.gen_range(0..pool.len())]) } else { rec.random_node(r) };
                            let p: Vec<Node> = (0..lp).map(|_| pick(&mut r)).collect();
                            let q: Vec<Node> = (0..lq).map(|_| pick(&mut r)).collect();
                            rec.rec_cl(["leq", "lt", "geq", "gt", "eq"][r.gen_range(0..5)], &p, &q)
                        }
                    }
                    "cl" => {
                        let (lp, lq) = (r.gen_range(0..=4), r.gen_range(0..=4));
                        let p: Vec<Node> = (0..lp).map(|_| rec.random_node(&mut r)).collect();
                        let mut q: Vec<Node> = (0..lq).map(|_| rec.random_node(&mut r)).collect();
                        if lp >= 1 && lq >= 1 && r.gen_bool(0.3) {
                            q[0] = Rc::clone(&p[0]);
                        }
                        rec.rec_cl(["leq", "lt", "geq", "gt", "eq"][r.gen_range(0..5)], &p, &q)
                    }
                    _ => panic!("harness: unknown kind {}", k),
                }
            }
        }
    }
    rec.out.flush().ok();
    json!({"summary": {"records": rec.records, "panics": rec.panics, "kinds": rec.kinds, "nv": nv,
                        "distinct_functions": distinct.len(), "symbols": rec.map[1..].to_vec()}})
}


/// exec-bdd <in.ndjson> <out.ndjson> <nv>: re-execute the call described by each input record
/// (arguments as structures) on the real code and log a fresh record.  Used by --replay.
pub fn exec(args: &[String]) -> Value {
    let nv: usize = args[2].parse().expect("nv");
    let mut r = rng(5);
    let out: Box<dyn Write> = Box::new(std::io::BufWriter::new(std::fs::File::create(&args[1]).expect("create")));
    let mut rec = Rec::new(nv, &mut r, out);
    let text = std::fs::read_to_string(&args[0]).expect("read");
    for line in text.lines().filter(|l| !l.trim().is_empty()) {
        let c: Value = serde_json::from_str(line).expect("json");
        let c = if c["k"] == "panic" { c["call"].clone() } else { c };
        let fo = c["foreign"].as_str().unwrap_or("").to_string();
        let nd = |v: &Value| build_env(&rec.env, v, &rec.map);
        let nd2 = |v: &Value, which: &str| if fo.contains(which) { build_env(&rec.env2, v, &rec.map) } else { build_env(&rec.env, v, &rec.map) };
        let nds = |v: &Value| -> Vec<Node> {
            v.as_array().expect("list").iter().map(|x| build_env(if fo == "bs" { &rec.env2 } else { &rec.env }, x, &rec.map)).collect()
        };
        match c["k"].as_str().unwrap_or("") {
            "bin" => {
                let (a, b) = (nd2(&c["a"], "a"), nd2(&c["b"], "b"));
                rec.rec_bin(c["op"].as_str().expect("op"), &a, &b)
            }
            "not" => {
                let a = nd2(&c["a"], "a");
                rec.rec_not(&a)
            }
            "ite" => {
                let (a, b, cc) = (nd(&c["a"]), nd2(&c["b"], "b"), nd2(&c["c"], "c"));
                rec.rec_ite(&a, &b, &cc)
            }
            k @ ("exists" | "all") => {
                let f = nd2(&c["f"], "f");
                let vs: Vec<usize> = c["vs"].as_array().expect("vs").iter().map(idx).collect();
                rec.rec_quant(k, &vs, &f)
            }
            "cc" => {
                let bs = nds(&c["bs"]);
                let n: i64 = c["n_exact"].as_str().map(|s| s.parse().expect("n")).unwrap_or_else(|| c["n"].as_i64().expect("n"));
                rec.rec_cc(c["kind"].as_str().expect("kind"), &bs, n)
            }
            "cl" => {
                let (p, q) = (nds(&c["p"]), nds(&c["q"]));
                rec.rec_cl(c["kind"].as_str().expect("kind"), &p, &q)
            }
            "model" | "infer" => {
                let f = nd2(&c["f"], "f");
                rec.rec_model(&f)
            }
            "retain" => {
                let f = nd2(&c["f"], "f");
                rec.rec_retain(&f)
            }
            other => panic!("harness: cannot exec record kind {:?}", other),
        }
    }
    rec.out.flush().ok();
    json!({"summary": {"records": rec.records, "panics": rec.panics}})
}


/// record-fp <out.ndjson> <count>: the library iterator fp(a, t) with random table-driven
/// transformers over all diagrams of 2 or 3 variables and a call counter.  The driver only issues
/// calls whose sequence a, t(a), .. reaches an element that t maps to itself (otherwise fp is
/// documented not to terminate).
pub fn record_fp(args: &[String]) -> Value {
    let count: usize = args[1].parse().expect("count");
    let mut r = rng(83);
    let out: Box<dyn Write> = Box::new(std::io::BufWriter::new(std::fs::File::create(&args[0]).expect("create")));
    let mut rec = Rec::new(3, &mut r, out);
    let all = rec.all_wf();
    let n = all.len();
    let mut longest = 0usize;
    let mut done = 0usize;
    while done < count {
        // a random function on indices, biased towards short cycles-free chains
        let table: Vec<usize> = (0..n).map(|i| if r.gen_bool(0.25) { i } else { r.gen_range(0..n) }).collect();
        let a = r.gen_range(0..n);
        // does the chain from a reach a fixed point?
        let (mut x, mut steps, mut ok) = (a, 0usize, false);
        let mut visited = vec![a];
        while steps <= n {
            let y = table[x];
            if y == x {
                ok = true;
                break;
            }
            x = y;
            visited.push(x);
            steps += 1;
        }
        if !ok {
            continue;
        }
        done += 1;
        longest = longest.max(steps);
        let calls = std::cell::Cell::new(0usize);
        let env = &rec.env;
        let all_ref = &all;
        let table_ref = &table;
        let start = Rc::clone(&all[a]);
        let got = guarded(|| {
            env.fp(start, |x| {
                calls.set(calls.get() + 1);
                let i = all_ref.iter().position(|c| *c == x).expect("harness: unknown diagram");
                Rc::clone(&all_ref[table_ref[i]])
            })
        });
        let tj: Vec<Value> = visited.iter().map(|i| json!([rec.j(&all[*i]), rec.j(&all[table[*i]])])).collect();
        let call = json!({"k": "fp", "a": rec.j(&all[a]), "table": tj});
        match got {
            Ok(res) => {
                let mut c = call;
                c["res"] = rec.j(&res);
                c["calls"] = json!(calls.get());
                rec.emit(c)
            }
            Err(m) => rec.emit_panic(call, m),
        }
    }
    rec.out.flush().ok();
    json!({"summary": {"records": rec.records, "panics": rec.panics, "longest_chain": longest, "nv": 3}})
}
