//! C12: no input makes the parser / evaluator panic.  Seeded drivers for byte-level inputs
//! (formula and ordering file), in-process under catch_unwind.  Every input is logged as one
//! record: outcome "ok" / "err" (accepted by Trace_Lang: every action of the specification has an
//! Ok/Err post-state) or a panic (no action matches).
use std::io::Write;

use rand::rngs::StdRng;
use rand::Rng;
use rsbdd::parser::{ParsedFormula, SymbolicBDD};
use serde_json::{json, Value};

use crate::lang::*;
use crate::util::*;

const WORDS: [&str; 40] = ["a", "b", "c", "X", "and", "or", "not", "xor", "nor", "nand", "implies", "in", "iff", "eq", "exists", "any",
    "forall", "all", "if", "then", "else", "true", "false", "lfp", "mu", "gfp", "nu", "&", "|", "-", "!", "^", "=>", "<=", "<=>",
    "#", "=", ">=", "<", ">"];
const PUNCT: [&str; 12] = ["(", ")", "[", "]", ",", "{", "}", "\"", " ", "\n", "\t", "'"];
const DIGITS: [&str; 10] = ["0", "1", "7", "42", "18446744073709551615", "18446744073709551616", "99999999999999999999999999",
    "\u{0663}", "1\u{0663}2", "\u{ff11}\u{0967}"];

pub fn gen_input(r: &mut StdRng, valid: &[String]) -> Vec<u8> {
    match r.gen_range(0..12) {
        0 => {
            // random bytes, possibly invalid UTF-8
            let n = r.gen_range(0..200);
            (0..n).map(|_| r.gen::<u8>()).collect()
        }
        1 | 2 => {
            // token soup
            let n = r.gen_range(0..60);
            let mut s = String::new();
            for _ in 0..n {
                match r.gen_range(0..10) {
                    0..=5 => s.push_str(WORDS[r.gen_range(0..WORDS.len())]),
                    6 | 7 => s.push_str(PUNCT[r.gen_range(0..PUNCT.len())]),
                    8 => s.push_str(DIGITS[r.gen_range(0..DIGITS.len())]),
                    _ => s.push(char::from_u32(r.gen_range(0x20..0x3000)).unwrap_or('?')),
                }
                if r.gen_bool(0.6) {
                    s.push(' ');
                }
            }
            s.into_bytes()
        }
        3..=6 => {
            // mutated valid formula: byte-level edits
            let mut b = valid[r.gen_range(0..valid.len())].clone().into_bytes();
            for _ in 0..r.gen_range(1..5) {
                if b.is_empty() {
                    break;
                }
                let p = r.gen_range(0..b.len());
                match r.gen_range(0..5) {
                    0 => {
                        b.remove(p);
                    }
                    1 => b.insert(p, r.gen::<u8>()),
                    2 => {
                        let q = r.gen_range(0..b.len());
                        b.swap(p, q);
                    }
                    3 => {
                        let w = DIGITS[r.gen_range(0..DIGITS.len())].as_bytes();
                        for (k, x) in w.iter().enumerate() {
                            b.insert((p + k).min(b.len()), *x);
                        }
                    }
                    _ => b.truncate(p),
                }
            }
            b
        }
        7 => {
            // deep nesting (<= 200) of one construct
            let d = r.gen_range(1..=200);
            let (open, close): (&str, &str) = [("(", ")"), ("-", ""), ("[", "] = 1"), ("exists a # ", ""), ("lfp X # a | ", ""), ("if a then b else ", ""), ("not (", ")")][r.gen_range(0..7)];
            let mut s = String::new();
            for _ in 0..d {
                s.push_str(open);
            }
            s.push_str(if r.gen_bool(0.8) { "a" } else { "" });
            let closes = if r.gen_bool(0.7) { d } else { r.gen_range(0..=d) };
            for _ in 0..closes {
                s.push_str(close);
            }
            s.into_bytes()
        }
        8 => {
            // large but shallow input (<= 64 KiB): wide lists, long comments, many names
            let mut s = String::new();
            match r.gen_range(0..4) {
                0 => {
                    s.push('[');
                    for i in 0..r.gen_range(1..250) {
                        s.push_str(&format!("v{}, ", i % 9));
                    }
                    s.push_str("] >= 3");
                }
                1 => {
                    s.push('"');
                    for _ in 0..r.gen_range(1..60000) {
                        s.push('x');
                    }
                    s.push_str("\" a | b");
                }
                2 => {
                    s.push_str("exists ");
                    for i in 0..r.gen_range(1..3000) {
                        s.push_str(&format!("q{}, ", i));
                    }
                    s.push_str("# q1 & z");
                }
                _ => {
                    for _ in 0..r.gen_range(1..30000) {
                        s.push_str(if r.gen_bool(0.5) { " " } else { "\n" });
                    }
                    s.push_str("a <=> b");
                }
            }
            s.into_bytes()
        }
        9 => {
            if r.gen_bool(0.3) {
                Vec::new()
            } else {
                // a digit run of random length mixing ASCII and non-ASCII digits of different byte widths
                // (\d matches them all), inside or outside a counting comparison, formula or ordering
                let pool = ['0', '7', '9', '\u{0663}', '\u{06f5}', '\u{0969}', '\u{0be7}', '\u{ff11}', '\u{1d7d0}', '\u{1d7ec}'];
                let n = r.gen_range(1..48);
                let run: String = (0..n).map(|_| pool[r.gen_range(0..pool.len())]).collect();
                match r.gen_range(0..4) {
                    0 => run.into_bytes(),
                    1 => format!("[a, b] >= {}", run).into_bytes(),
                    2 => format!("a & [x] < {} | b", run).into_bytes(),
                    _ => format!("a {} b", run).into_bytes(),
                }
            }
        }
        10 => {
            // unbalanced brackets / quotes
            let mut s = valid[r.gen_range(0..valid.len())].clone();
            let ins = ["(", ")", "[", "]", "\"", "{", "}", "#"][r.gen_range(0..8)];
            let p = r.gen_range(0..=s.chars().count());
            let byte = s.char_indices().nth(p).map(|x| x.0).unwrap_or(s.len());
            s.insert_str(byte, ins);
            s.into_bytes()
        }
        _ => valid[r.gen_range(0..valid.len())].clone().into_bytes(),
    }
}

fn tree_has_fix(t: &SymbolicBDD) -> bool {
    tree_json(t).to_string().contains("\"fix\"")
}

/// longest operand list of a counting comparison (evaluation is exponential in it by design)
fn longest_list(t: &SymbolicBDD) -> usize {
    match t {
        SymbolicBDD::CountableConst(_, fs, _) => fs.len().max(fs.iter().map(longest_list).max().unwrap_or(0)),
        SymbolicBDD::CountableVariable(_, l, r) => {
            (l.len() + r.len()).max(l.iter().chain(r.iter()).map(longest_list).max().unwrap_or(0))
        }
        SymbolicBDD::Not(f) | SymbolicBDD::Quantifier(_, _, f) | SymbolicBDD::FixedPoint(_, _, f) => longest_list(f),
        SymbolicBDD::BinaryOp(_, a, b) => longest_list(a).max(longest_list(b)),
        SymbolicBDD::Ite(a, b, c) => longest_list(a).max(longest_list(b)).max(longest_list(c)),
        _ => 0,
    }
}

/// what the library does with these bytes as a formula and as an ordering file
pub fn probe(bytes: &[u8], evaluate: bool) -> Value {
    let b1 = bytes.to_vec();
    let as_formula = guarded(move || {
        let mut rd = std::io::BufReader::new(&b1[..]);
        match ParsedFormula::new(&mut rd, None) {
            Err(_) => "err".to_string(),
            Ok(pf) => {
                // evaluation is part of the property for formulas whose fixed points converge; random
                // inputs with a fixed point are only evaluated when the driver knows they are monotone
                if evaluate && pf.vars.len() <= 14 && !tree_has_fix(&pf.bdd) && longest_list(&pf.bdd) <= 10 {
                    let res = pf.eval();
                    let _ = res.is_true();
                    "ok-evaluated".to_string()
                } else {
                    "ok".to_string()
                }
            }
        }
    });
    let b2 = bytes.to_vec();
    let as_order = guarded(move || {
        let mut rd = std::io::BufReader::new(&b2[..]);
        match SymbolicBDD::tokenize(&mut rd, None) {
            Err(_) => "err".to_string(),
            Ok(toks) => {
                let vars = ParsedFormula::extract_vars(&toks);
                let mut f = std::io::BufReader::new("a & b | zz".as_bytes());
                match ParsedFormula::new(&mut f, Some(vars)) {
                    Ok(pf) => {
                        let _ = pf.eval();
                        "ok".to_string()
                    }
                    Err(_) => "err".to_string(),
                }
            }
        }
    });
    let hex: String = bytes.iter().map(|b| format!("{:02x}", b)).collect();
    let mut rec = json!({"k": "bytes", "len": bytes.len(), "hex": if hex.len() <= 600 { hex.clone() } else { format!("{}..", &hex[..600]) }});
    match (&as_formula, &as_order) {
        (Ok(a), Ok(b)) => {
            rec["formula"] = json!(a);
            rec["order"] = json!(b);
        }
        (fa, fo) => {
            rec["k"] = json!("outcome");
            rec["panic"] = json!(fa.clone().err().or_else(|| fo.clone().err()));
            rec["as"] = json!(if fa.is_err() { "formula" } else { "ordering" });
            rec["full_hex"] = json!(hex);
        }
    }
    rec
}

/// fuzz <out.ndjson> <count> <inputs_dir> <keep>: in-process campaign; also writes `keep` of the
/// inputs to files for the binary campaign of the orchestrator
pub fn run(args: &[String]) -> Value {
    let count: usize = args[1].parse().expect("count");
    let dir = std::path::PathBuf::from(&args[2]);
    let keep: usize = args[3].parse().expect("keep");
    std::fs::create_dir_all(&dir).ok();
    let mut r = rng(89);
    let mut out = std::io::BufWriter::new(std::fs::File::create(&args[0]).expect("create"));
    // a pool of valid formulas to mutate
    let valid: Vec<String> = {
        let tmp = dir.join("valid.json");
        crate::record_lang::gen_formulas(&[tmp.to_string_lossy().to_string(), "120".into(), "5".into()]);
        let v = read_json(&tmp);
        v.as_array().expect("texts").iter().map(|x| x.as_str().expect("t").to_string()).collect()
    };
    let (mut panics, mut oks, mut errs, mut non_utf8, mut big) = (0u64, 0u64, 0u64, 0u64, 0u64);
    for i in 0..count {
        let bytes = gen_input(&mut r, &valid);
        if std::str::from_utf8(&bytes).is_err() {
            non_utf8 += 1;
        }
        if bytes.len() > 4096 {
            big += 1;
        }
        std::fs::write(dir.join("current.bin"), &bytes).ok();
        let rec = probe(&bytes, true);
        if rec["k"] == "outcome" {
            panics += 1;
        } else if rec["formula"] == "ok" || rec["formula"] == "ok-evaluated" {
            oks += 1;
        } else {
            errs += 1;
        }
        if i < keep {
            std::fs::write(dir.join(format!("in{}.bin", i)), &bytes).ok();
        }
        writeln!(out, "{}", rec).ok();
    }
    out.flush().ok();
    json!({"summary": {"inputs": count, "panics": panics, "accepted": oks, "rejected": errs, "invalid_utf8": non_utf8, "larger_than_4k": big}})
}

/// probe-file <file>...: for --replay
pub fn probe_files(args: &[String]) -> Value {
    let mut panics = 0;
    for f in args {
        let bytes = std::fs::read(f).expect("read");
        let rec = probe(&bytes, true);
        if rec["k"] == "outcome" {
            panics += 1;
        }
        println!("{}", json!({"mismatch": rec}));
    }
    json!({"summary": {"panics": panics}})
}
