//! impl -> spec for the formula language: random (monotone-fixpoint) formula texts are parsed and
//! evaluated by the real code and logged for Trace_Lang; random / mutated texts are tokenized and
//! parsed and logged with their character arrays for the tokenizer/grammar part of Trace_Lang.
use std::collections::{HashMap, HashSet};
use std::io::Write;
use std::rc::Rc;

use rand::rngs::StdRng;
use rand::Rng;
use rsbdd::parser::SymbolicBDD;
use serde_json::{json, Value};

use crate::lang::*;
use crate::util::*;

const POOL: [&str; 12] = ["a", "b", "c", "X", "Y", "q1", "_z", "p'", "andy", "iffy", "T", "v_0"];

struct Gen<'a> {
    r: &'a mut StdRng,
    names: Vec<&'static str>,
}

#[derive(Clone)]
struct Scope {
    // fixed-point names in scope: name -> polarity of the current position (+1 may occur,
    // -1 under an odd number of negations, 0 = may not occur anywhere below)
    fix: HashMap<String, i8>,
}

impl Scope {
    fn flip(&self) -> Scope {
        Scope { fix: self.fix.iter().map(|(k, v)| (k.clone(), -*v)).collect() }
    }
    fn none(&self) -> Scope {
        // fixed-point names may not occur at all below this point (both polarities would be needed)
        Scope { fix: self.fix.keys().map(|k| (k.clone(), 0)).collect() }
    }
    fn without(&self, ns: &[String]) -> Scope {
        let mut f = self.fix.clone();
        for n in ns {
            f.remove(n);
        }
        Scope { fix: f }
    }
}

fn flip_flag(s: &Scope) -> Scope {
    s.flip()
}

impl<'a> Gen<'a> {
    fn pick<'b>(&mut self, xs: &[&'b str]) -> &'b str {
        xs[self.r.gen_range(0..xs.len())]
    }
    fn ws(&mut self) -> &'static str {
        match self.r.gen_range(0..12) {
            0 => "\n",
            1 => "  ",
            2 => " \"note\" ",
            _ => " ",
        }
    }
    fn name(&mut self, sc: &Scope) -> String {
        // a usable variable: not a fixed-point name in negative position
        for _ in 0..20 {
            let n = self.names[self.r.gen_range(0..self.names.len())].to_string();
            if *sc.fix.get(&n).unwrap_or(&1) == 1 {
                return n;
            }
        }
        "true".to_string()
    }
    fn formula(&mut self, depth: usize, sc: &Scope) -> String {
        if depth == 0 || self.r.gen_range(0..7) == 0 {
            return match self.r.gen_range(0..12) {
                0 => "true".into(),
                1 => "false".into(),
                _ => self.name(sc),
            };
        }
        let w = self.ws();
        match self.r.gen_range(0..20) {
            0 | 1 => format!("{}({})", self.pick(&["-", "!", "not "]), self.formula(depth - 1, &flip_flag(sc))),
            2..=5 => {
                let op = self.pick(&["&", "and", "*", "|", "or", "+"]);
                format!("({}{}{}{}{})", self.formula(depth - 1, sc), w, op, w, self.formula(depth - 1, sc))
            }
            6 => {
                let op = self.pick(&["=>", "implies", "in"]);
                format!("({} {} {})", self.formula(depth - 1, &flip_flag(sc)), op, self.formula(depth - 1, sc))
            }
            7 => format!("({} <= {})", self.formula(depth - 1, sc), self.formula(depth - 1, &flip_flag(sc))),
            8 => {
                let op = self.pick(&["^", "xor", "<=>", "iff", "eq"]);
                format!("({} {} {})", self.formula(depth - 1, &sc.none()), op, self.formula(depth - 1, &sc.none()))
            }
            9 => {
                let op = self.pick(&["nor", "nand"]);
                format!("({} {} {})", self.formula(depth - 1, &flip_flag(sc)), op, self.formula(depth - 1, &flip_flag(sc)))
            }
            10 => format!(
                "(if {} then {} else {})",
                self.formula(depth - 1, &sc.none()),
                self.formula(depth - 1, sc),
                self.formula(depth - 1, sc)
            ),
            11 | 12 => {
                let q = self.pick(&["exists", "any", "forall", "all"]);
                let k = self.r.gen_range(0..3);
                let vs: Vec<String> = (0..k).map(|_| self.names[self.r.gen_range(0..self.names.len())].to_string()).collect();
                let trailing = if k > 0 && self.r.gen_range(0..5) == 0 { "," } else { "" };
                format!("({} {}{} #{}{})", q, vs.join(", "), trailing, w, self.formula(depth - 1, &sc.without(&vs)))
            }
            13 | 14 => {
                let k = self.r.gen_range(0..4);
                let (cmp, pol) = *[("=", 0), ("<=", -1), (">=", 1), ("<", -1), (">", 1)].get(self.r.gen_range(0..5)).expect("cmp");
                let s2 = if pol == 0 { sc.none() } else if pol < 0 { flip_flag(sc) } else { sc.clone() };
                let items: Vec<String> = (0..k).map(|_| self.formula(depth - 1, &s2)).collect();
                let trailing = if k > 0 && self.r.gen_range(0..5) == 0 { "," } else { "" };
                format!("[{}{}] {} {}", items.join(", "), trailing, cmp, self.r.gen_range(0..=k + 1))
            }
            15 => {
                let (kl, kr) = (self.r.gen_range(0..3), self.r.gen_range(0..3));
                let (cmp, pol) = *[("=", 0), ("<=", -1), (">=", 1), ("<", -1), (">", 1)].get(self.r.gen_range(0..5)).expect("cmp");
                let (sl, sr) = if pol == 0 { (sc.none(), sc.none()) } else if pol < 0 { (flip_flag(sc), sc.clone()) } else { (sc.clone(), flip_flag(sc)) };
                let l: Vec<String> = (0..kl).map(|_| self.formula(depth - 1, &sl)).collect();
                let rr: Vec<String> = (0..kr).map(|_| self.formula(depth - 1, &sr)).collect();
                format!("[{}] {} [{}]", l.join(", "), cmp, rr.join(", "))
            }
            16 | 17 => {
                let kw = self.pick(&["lfp", "mu", "gfp", "nu"]);
                let x = self.names[self.r.gen_range(0..self.names.len())].to_string();
                let mut s2 = sc.clone();
                s2.fix.insert(x.clone(), 1);
                format!("({} {} #{}{})", kw, x, w, self.formula(depth - 1, &s2))
            }
            _ => self.name(sc),
        }
    }
}

impl<'a> Gen<'a> {
    /// k nested fixed points (alternating or same kind, names possibly reused = shadowing), each level optionally
    /// combined with its own name ("| Z": a self-supporting body), with a side formula, or negated as a whole
    /// (the scope's polarities keep every body monotone in every enclosing name)
    fn nested(&mut self, k: usize, sc: &Scope) -> String {
        if k == 0 {
            // the innermost body should talk about the enclosing fixed-point names
            let mut best = String::new();
            for _ in 0..8 {
                let d = self.r.gen_range(1..=3);
                best = self.formula(d, sc);
                let used = sc.fix.keys().filter(|n| best.split(|c: char| !(c.is_alphanumeric() || c == '_' || c == '\'')).any(|w| w == n.as_str())).count();
                if used >= 1 && (used >= 2 || self.r.gen_bool(0.5)) {
                    break;
                }
            }
            return best;
        }
        let kw = self.pick(&["lfp", "mu", "gfp", "nu"]);
        let x = self.names[self.r.gen_range(0..self.names.len())].to_string();
        let mut s2 = sc.clone();
        s2.fix.insert(x.clone(), 1);
        let op = self.pick(&["&", "|"]);
        match self.r.gen_range(0..8) {
            0 | 6 => format!("({} {} # {})", kw, x, self.nested(k - 1, &s2)),
            1 => {
                let side = self.formula(2, &s2);
                format!("({} {} # ({} {} {}))", kw, x, self.nested(k - 1, &s2), op, side)
            }
            2 => {
                let side = self.formula(2, &s2);
                format!("({} {} # ({} {} {}))", kw, x, side, op, self.nested(k - 1, &s2))
            }
            3 => format!("({} {} # -({}))", kw, x, self.nested(k - 1, &flip_flag(&s2))),
            _ => format!("({} {} # ({} {} {}))", kw, x, self.nested(k - 1, &s2), op, x),
        }
    }
}

impl<'a> Gen<'a> {
    /// three binders around one body over {free names, Y, X, Z}: K1 Y # K2 X # K3 Z # (g) [op Z], every kind combination;
    /// the body is generated with all three names positive, so every level is monotone
    /// two binders: K1 X # lit op (K2 Y # (Q v # X [op lit]) op Y) -- the inner fixed point is re-evaluated for every outer
    /// iterate, its body ranges over the outer value through a quantifier and supports itself
    fn template2(&mut self) -> String {
        let free: Vec<&'static str> = if self.r.gen_bool(0.3) { vec!["a", "b"] } else { vec!["a"] };
        let kws = [["lfp", "mu"], ["gfp", "nu"]];
        let (k1, k2) = (self.r.gen_range(0..2), self.r.gen_range(0..2));
        let (kw1, kw2) = (kws[k1][self.r.gen_range(0..2)], kws[k2][self.r.gen_range(0..2)]);
        let lit = |s: &mut Self| { let n = free[s.r.gen_range(0..free.len())]; if s.r.gen_bool(0.2) { format!("-{}", n) } else { n.to_string() } };
        let q = self.pick(&["forall", "exists", "all", "any"]);
        let v = free[self.r.gen_range(0..free.len())];
        let tail = if self.r.gen_bool(0.3) { format!(" {} {}", self.pick(&["&", "|"]), lit(self)) } else { String::new() };
        let inner_body = format!("({} {} # X{})", q, v, tail);
        let inner = match self.r.gen_range(0..4) {
            0 => format!("({} Y # {})", kw2, inner_body),
            1 => format!("({} Y # {} & Y)", kw2, inner_body),
            _ => format!("({} Y # {} | Y)", kw2, inner_body),
        };
        let l1 = lit(self);
        match self.r.gen_range(0..4) {
            0 => format!("{} X # {}", kw1, inner),
            1 => format!("{} X # {} | {}", kw1, l1, inner),
            2 => format!("{} X # -(-({})) & {}", kw1, inner, l1),
            _ => format!("{} X # {} & {}", kw1, l1, inner),
        }
    }

    fn template3(&mut self) -> String {
        let free: Vec<&'static str> = if self.r.gen_bool(0.3) { vec!["a", "b"] } else { vec!["b"] };
        let bound = ["Y", "X", "Z"];
        let mut names = free.clone();
        names.extend(bound.iter());
        let saved = std::mem::replace(&mut self.names, names);
        let mut sc = Scope { fix: HashMap::new() };
        for b in bound.iter() {
            sc.fix.insert(b.to_string(), 1);
        }
        let mut g = String::new();
        if self.r.gen_bool(0.7) {
            // a body whose outer iteration takes several strict steps: <lit> op (Q v # W [op lit]) with W an enclosing name
            let lit = |s: &mut Self| { let n = free[s.r.gen_range(0..free.len())]; if s.r.gen_bool(0.25) { format!("-{}", n) } else { n.to_string() } };
            let l1 = lit(self);
            let op1 = self.pick(&["&", "|"]);
            let q = self.pick(&["forall", "exists", "all", "any"]);
            let v = free[self.r.gen_range(0..free.len())];
            let w = self.pick(&["Y", "Y", "Y", "X"]);
            let tail = if self.r.gen_bool(0.4) { format!(" {} {}", self.pick(&["&", "|"]), lit(self)) } else { String::new() };
            g = format!("{} {} ({} {} # {}{})", l1, op1, q, v, w, tail);
        }
        for _ in 0..12 {
            if !g.is_empty() {
                break;
            }
            let d = self.r.gen_range(1..=3);
            g = self.formula(d, &sc);
            if g.contains('Y') && (g.contains("forall") || g.contains("exists") || g.contains("all ") || g.contains("any ")) {
                break;
            }
        }
        let kws = [["lfp", "mu"], ["gfp", "nu"]];
        let k: Vec<usize> = (0..3).map(|_| self.r.gen_range(0..2)).collect();
        let kw = |s: &mut Self, i: usize| kws[k[i]][s.r.gen_range(0..2)];
        let (k1, k2, k3) = (kw(self, 0), kw(self, 1), kw(self, 2));
        let inner = match self.r.gen_range(0..4) {
            0 => g,
            1 => format!("({}) & Z", g),
            _ => format!("({}) | Z", g),
        };
        let mid = match self.r.gen_range(0..4) {
            0 => format!("(({} Z # {}) | X)", k3, inner),
            1 => format!("(({} Z # {}) & (X | {}))", k3, inner, free[0]),
            _ => format!("({} Z # {})", k3, inner),
        };
        self.names = saved;
        format!("{} Y # {} X # {}", k1, k2, mid)
    }
}

/// canonical names n1..nK by variable id
fn canon_map(pf: &rsbdd::parser::ParsedFormula) -> HashMap<String, String> {
    pf.vars.iter().enumerate().map(|(i, v)| (v.name.as_ref().clone(), format!("n{}", i + 1))).collect()
}

fn rename(t: &Value, m: &HashMap<String, String>) -> Value {
    let a = t.as_array().expect("tree");
    let k = a[0].as_str().expect("kind");
    let nm = |v: &Value| json!(m.get(v.as_str().expect("name")).cloned().unwrap_or_else(|| v.as_str().expect("name").to_string()));
    let list = |v: &Value| Value::Array(v.as_array().expect("list").iter().map(|x| rename(x, m)).collect());
    match k {
        "true" | "false" | "ref" | "subtree" => t.clone(),
        "var" => json!(["var", nm(&a[1])]),
        "not" => json!(["not", rename(&a[1], m)]),
        "bin" => json!(["bin", a[1], rename(&a[2], m), rename(&a[3], m)]),
        "ite" => json!(["ite", rename(&a[1], m), rename(&a[2], m), rename(&a[3], m)]),
        "q" => json!(["q", a[1], a[2].as_array().expect("vs").iter().map(nm).collect::<Vec<_>>(), rename(&a[3], m)]),
        "cc" => json!(["cc", a[1], list(&a[2]), a[3]]),
        "cv" => json!(["cv", a[1], list(&a[2]), list(&a[3])]),
        "fix" => json!(["fix", nm(&a[1]), a[2], rename(&a[3], m)]),
        other => panic!("harness: unknown tree kind {}", other),
    }
}

fn has_ref(t: &SymbolicBDD) -> bool {
    tree_json(t).to_string().contains("\"ref\"")
}

/// evaluate one text and produce the "formula" record (None if it does not parse / too many names)
pub fn formula_record(text: &str, max_names: usize) -> Option<Value> {
    match parse(text, None) {
        Err(m) => Some(json!({"k": "outcome", "text": text, "panic": m, "stage": "parse"})),
        Ok(Err(_)) => None,
        Ok(Ok(pf)) => {
            if pf.vars.len() > max_names {
                return None;
            }
            let m = canon_map(&pf);
            let res = match guarded(|| pf.eval()) {
                Err(msg) => return Some(json!({"k": "outcome", "text": text, "panic": msg, "stage": "eval"})),
                Ok(b) => b,
            };
            // the same object evaluated a second time (what -b N does): nothing may be carried over
            match guarded(|| pf.eval()) {
                Err(msg) => return Some(json!({"k": "outcome", "text": text, "panic": msg, "stage": "second eval"})),
                Ok(b2) => {
                    if b2 != res {
                        return Some(json!({"k": "outcome", "text": text, "panic": "the second evaluation of the same ParsedFormula differs from the first", "stage": "second eval"}));
                    }
                }
            }
            let mut names: Vec<String> = pf.vars.iter().map(|v| v.name.as_ref().clone()).collect();
            // the record's truth table ranges over the formula's own names (at least one column)
            if names.is_empty() {
                names.push("__unused0".to_string());
            }
            let tt = truth_table(&res, &names);
            let mut sup = HashSet::new();
            support(&res, &mut sup);
            let mut sup: Vec<String> = sup.into_iter().map(|n| m[&n].clone()).collect();
            sup.sort();
            Some(json!({"k": "formula", "text": text, "ast": rename(&tree_json(&pf.bdd), &m), "tt": tt,
                "fv": pf.free_vars.iter().map(|v| m[v.name.as_ref()].clone()).collect::<Vec<_>>(),
                "vars": pf.vars.iter().map(|v| m[v.name.as_ref()].clone()).collect::<Vec<_>>(),
                "support": sup, "ref": has_ref(&pf.bdd), "is_true": res.is_true(), "is_false": res.is_false(),
                "wf": well_formed(&res, None)}))
        }
    }
}

/// record-lang <out.ndjson> <count> <max_names> <progress>
pub fn record(args: &[String]) -> Value {
    let count: usize = args[1].parse().expect("count");
    let max_names: usize = args[2].parse().expect("max_names");
    let progress = &args[3];
    let mut r = rng(61);
    let mut out = std::io::BufWriter::new(std::fs::File::create(&args[0]).expect("create"));
    let (mut records, mut panics, mut fixes, mut binders, mut nonconst) = (0u64, 0u64, 0u64, 0u64, 0u64);
    let mut tries = 0;
    while (records as usize) < count && tries < count * 20 {
        tries += 1;
        let k = r.gen_range(2..=max_names);
        let mut names: Vec<&'static str> = vec![];
        while names.len() < k {
            let n = POOL[r.gen_range(0..POOL.len())];
            if !names.contains(&n) {
                names.push(n);
            }
        }
        let depth = r.gen_range(2..=6);
        let text = {
            let nest = if tries % 4 == 0 { r.gen_range(2..=3) } else { 0 };
            let mut g = Gen { r: &mut r, names };
            if nest > 0 {
                g.nested(nest, &Scope { fix: HashMap::new() })
            } else if tries % 4 == 2 {
                if tries % 8 == 2 { g.template2() } else { g.template3() }
            } else {
                g.formula(depth, &Scope { fix: HashMap::new() })
            }
        };
        std::fs::write(progress, &text).ok();
        if let Some(rec) = formula_record(&text, max_names) {
            if rec["k"] == "outcome" {
                panics += 1;
            } else {
                let s = rec["ast"].to_string();
                if s.contains("\"fix\"") {
                    fixes += 1;
                }
                if s.contains("\"q\"") {
                    binders += 1;
                }
                if rec["is_true"] == false && rec["is_false"] == false {
                    nonconst += 1;
                }
            }
            writeln!(out, "{}", rec).ok();
            records += 1;
        }
    }
    out.flush().ok();
    std::fs::write(progress, "").ok();
    json!({"summary": {"records": records, "panics": panics, "with_fixed_point": fixes, "with_quantifier": binders,
                        "nonconstant": nonconst, "texts_generated": tries}})
}

/// exec-lang <texts.json> <out.ndjson> <max_names>: re-evaluate given texts (for --replay)
pub fn exec(args: &[String]) -> Value {
    let texts = read_json(std::path::Path::new(&args[0]));
    let max_names: usize = args[2].parse().expect("max_names");
    let mut out = std::io::BufWriter::new(std::fs::File::create(&args[1]).expect("create"));
    let mut n = 0;
    for t in texts.as_array().expect("texts") {
        let text = t.as_str().expect("text");
        let rec = formula_record(text, max_names).unwrap_or_else(|| json!({"k": "outcome", "text": text, "rejected": true}));
        writeln!(out, "{}", rec).ok();
        n += 1;
    }
    out.flush().ok();
    json!({"summary": {"records": n}})
}

#[allow(dead_code)]
fn unused(_: Rc<u8>) {}


const PIECES: [&str; 46] = ["a", "b", "X", "and", "or", "not", "in", "if", "then", "else", "eq", "nu", "mu", "exists", "forall", "all",
    "true", "false", "<", "=", ">", "<=", "=>", "<=>", ">=", "-", "!", "&", "|", "^", "#", "*", "+", "[", "]", "(", ")", ",", " ", "\n",
    "\"", "$", "{", "}", "1", "\u{e9}"];

/// record-text <out.ndjson> <count>: random and mutated texts (modelled alphabet) with the real
/// tokenizer's and parser's outcome, for the tokenizer / grammar part of Trace_Lang
pub fn record_text(args: &[String]) -> Value {
    let count: usize = args[1].parse().expect("count");
    let mut r = rng(67);
    let mut out = std::io::BufWriter::new(std::fs::File::create(&args[0]).expect("create"));
    let (mut records, mut panics, mut accepted, mut mutated) = (0u64, 0u64, 0u64, 0u64);
    for i in 0..count {
        let base = {
            let names: Vec<&'static str> = vec!["a", "b", "X", "q1", "_z", "p'"];
            let depth = r.gen_range(1..=5);
            let mut g = Gen { r: &mut r, names };
            g.formula(depth, &Scope { fix: HashMap::new() })
        };
        let text = match i % 5 {
            0 => base, // a valid sentence
            4 => {
                // token-level mutation of a sentence: delete / duplicate / swap / replace one lexeme
                // (near-sentences: a dropped comma, a doubled keyword, a missing bracket ..)
                mutated += 1;
                let mut lex: Vec<String> = vec![];
                let mut cur = String::new();
                for ch in base.chars() {
                    if ch.is_alphanumeric() || ch == '_' || ch == '\'' {
                        cur.push(ch);
                    } else {
                        if !cur.is_empty() {
                            lex.push(std::mem::take(&mut cur));
                        }
                        if !ch.is_whitespace() {
                            // keep multi-character symbols together
                            if let Some(last) = lex.last_mut() {
                                let joined = format!("{}{}", last, ch);
                                if ["<=", "=>", "<=>", ">="].contains(&joined.as_str()) {
                                    *last = joined;
                                    continue;
                                }
                            }
                            lex.push(ch.to_string());
                        }
                    }
                }
                if !cur.is_empty() {
                    lex.push(cur);
                }
                if !lex.is_empty() {
                    let p = r.gen_range(0..lex.len());
                    match r.gen_range(0..4) {
                        0 => {
                            lex.remove(p);
                        }
                        1 => {
                            let c = lex[p].clone();
                            lex.insert(p, c);
                        }
                        2 => {
                            if p + 1 < lex.len() {
                                lex.swap(p, p + 1);
                            }
                        }
                        _ => lex[p] = PIECES[r.gen_range(0..PIECES.len())].to_string(),
                    }
                }
                lex.join(" ")
            }
            1 | 2 => {
                // mutate: delete / duplicate / swap / insert pieces
                mutated += 1;
                let mut cs: Vec<char> = base.chars().collect();
                for _ in 0..r.gen_range(1..4) {
                    if cs.is_empty() {
                        break;
                    }
                    let p = r.gen_range(0..cs.len());
                    match r.gen_range(0..4) {
                        0 => {
                            cs.remove(p);
                        }
                        1 => {
                            let c = cs[p];
                            cs.insert(p, c);
                        }
                        2 => {
                            let q = r.gen_range(0..cs.len());
                            cs.swap(p, q);
                        }
                        _ => {
                            let piece = PIECES[r.gen_range(0..PIECES.len())];
                            for (k, ch) in piece.chars().enumerate() {
                                cs.insert((p + k).min(cs.len()), ch);
                            }
                        }
                    }
                }
                cs.into_iter().collect()
            }
            _ => {
                // token soup
                let n = r.gen_range(0..12);
                let mut s = String::new();
                for _ in 0..n {
                    s.push_str(PIECES[r.gen_range(0..PIECES.len())]);
                    if r.gen_bool(0.5) {
                        s.push(' ');
                    }
                }
                s
            }
        };
        let rec = crate::syntax::text_record(&text);
        if rec["k"] == "outcome" {
            panics += 1;
        } else if rec["parse_ok"] == true {
            accepted += 1;
        }
        writeln!(out, "{}", rec).ok();
        records += 1;
    }
    out.flush().ok();
    json!({"summary": {"records": records, "panics": panics, "accepted": accepted, "mutated": mutated}})
}

/// exec-text <texts.json> <out.ndjson>: text records (and formula records when accepted) for --replay
pub fn exec_text(args: &[String]) -> Value {
    let texts = read_json(std::path::Path::new(&args[0]));
    let mut out = std::io::BufWriter::new(std::fs::File::create(&args[1]).expect("create"));
    let mut n = 0;
    for t in texts.as_array().expect("texts") {
        let text = t.as_str().expect("text");
        writeln!(out, "{}", crate::syntax::text_record(text)).ok();
        n += 1;
    }
    out.flush().ok();
    json!({"summary": {"records": n}})
}

/// describe <in.json> <out.ndjson>: for each {text, order} the harness's view of the pipeline:
/// names by id, canonical tree, and the API route with a NamedSymbol ordering (distinct,
/// non-contiguous ids).  Used to build the "run" events of Trace_Cli (which re-derives all of it).
pub fn describe(args: &[String]) -> Value {
    use rsbdd::parser::ParsedFormula;
    use rsbdd::NamedSymbol;
    let items = read_json(std::path::Path::new(&args[0]));
    let mut out = std::io::BufWriter::new(std::fs::File::create(&args[1]).expect("create"));
    let mut n = 0;
    for (item_no, it) in items.as_array().expect("items").iter().enumerate() {
        let text = it["text"].as_str().expect("text").to_string();
        if args.len() > 2 {
            std::fs::write(&args[2], format!("{}", item_no)).ok(); // progress, for the orchestrator's watchdog
        }
        let no_api = it["no_api"].as_bool().unwrap_or(false);
        let order_names: Option<Vec<String>> = it["order"].as_str().and_then(|o| {
            let o = o.to_string();
            guarded(move || {
                let mut rd = std::io::BufReader::new(o.as_bytes());
                SymbolicBDD::tokenize(&mut rd, None).map(|toks| ParsedFormula::extract_vars(&toks))
            })
            .ok()
            .and_then(|r| r.ok())
            .map(|vs| vs.iter().map(|v| v.name.as_ref().clone()).collect())
        });
        let mk = |ids: &dyn Fn(usize) -> usize| -> Option<Vec<NamedSymbol>> {
            order_names.as_ref().map(|ns| ns.iter().enumerate().map(|(i, n)| NamedSymbol { name: Rc::new(n.clone()), id: ids(i) }).collect())
        };
        let rec = match parse(&text, mk(&|i| i)) {
            Ok(Ok(pf)) => {
                let m = canon_map(&pf);
                let names: Vec<String> = pf.vars.iter().map(|v| v.name.as_ref().clone()).collect();
                // API route: the same ordering as a NamedSymbol vector under several id schemes
                // (distinct ids that are not 0..k-1: gaps, 1-based, even, odd, large)
                let schemes: [(&str, &dyn Fn(usize) -> usize); 5] = [
                    ("5+4i", &|i| 5 + 4 * i),
                    ("i+1", &|i| i + 1),
                    ("2i", &|i| 2 * i),
                    ("2i+1", &|i| 2 * i + 1),
                    ("1000+i", &|i| 1000 + i),
                ];
                let mut api = json!({"panic": "no scheme ran"});
                for (sname, f) in schemes.iter() {
                    if no_api {
                        api = json!({"skipped": true});
                        break;
                    }
                    api = match parse(&text, mk(f)) {
                        Ok(Ok(pf2)) => {
                            let names2: Vec<String> = pf2.vars.iter().map(|v| v.name.as_ref().clone()).collect();
                            match guarded(|| pf2.eval()) {
                                Ok(res) => {
                                    let mut cols = names.clone();
                                    if cols.is_empty() {
                                        cols.push("__unused0".into());
                                    }
                                    let idx_ok = guarded(|| pf2.free_vars.iter().map(|v| pf2.to_free_index(v)).collect::<Vec<_>>())
                                        .map(|ix| ix == (0..pf2.free_vars.len()).collect::<Vec<_>>())
                                        .unwrap_or(false);
                                    let free2: Vec<String> = pf2.free_vars.iter().map(|v| v.name.as_ref().clone()).collect();
                                    let free1: Vec<String> = pf.free_vars.iter().map(|v| v.name.as_ref().clone()).collect();
                                    // what the property demands of the variable list: every name once, the
                                    // listed names in the order of the list (unlisted names may go anywhere),
                                    // the same free variables
                                    let mut sorted2 = names2.clone();
                                    sorted2.sort();
                                    let mut sorted1 = names.clone();
                                    sorted1.sort();
                                    let listed: Vec<String> = order_names.clone().unwrap_or_default();
                                    let proj = |ns: &Vec<String>| -> Vec<String> { ns.iter().filter(|n| listed.contains(n)).cloned().collect() };
                                    let mut fs2 = free2.clone();
                                    fs2.sort();
                                    let mut fs1 = free1.clone();
                                    fs1.sort();
                                    json!({"tt": truth_table(&res, &cols), "scheme": sname,
                                           "ok": well_formed(&res, None) && idx_ok && sorted2 == sorted1 && proj(&names2) == proj(&names) && fs2 == fs1})
                                }
                                Err(msg) => json!({"panic": msg, "scheme": sname}),
                            }
                        }
                        _ => json!({"panic": "API parse failed", "scheme": sname}),
                    };
                    // stop at the first scheme that deviates from the CLI-style route (ids 0..k-1)
                    let base_tt = {
                        let mut cols = names.clone();
                        if cols.is_empty() {
                            cols.push("__unused0".into());
                        }
                        guarded(|| truth_table(&pf.eval(), &cols)).ok()
                    };
                    if api.get("panic").is_some() || api["ok"] == false || base_tt.map(|t| json!(t) != api["tt"]).unwrap_or(true) {
                        break;
                    }
                }
                // a name listed twice (the later listing carries the larger id): the answer must still be the same
                // function of the same named variables, with the same free variables
                if !no_api && api.get("panic").is_none() && api["ok"] == true {
                    if let Some(ns) = order_names.as_ref().filter(|ns| !ns.is_empty()) {
                        let k = ns.len();
                        let mut v: Vec<NamedSymbol> = ns.iter().enumerate().map(|(i, n)| NamedSymbol { name: Rc::new(n.clone()), id: i }).collect();
                        let pick = item_no % k;
                        v.push(NamedSymbol { name: Rc::new(ns[pick].clone()), id: k });
                        if item_no % 3 == 0 {
                            v.push(NamedSymbol { name: Rc::new(ns[(pick + 1) % k].clone()), id: k + 1 });
                        }
                        let mut cols = names.clone();
                        if cols.is_empty() {
                            cols.push("__unused0".into());
                        }
                        let base = guarded(|| truth_table(&pf.eval(), &cols)).ok();
                        let dup = match parse(&text, Some(v)) {
                            Ok(Ok(pf3)) => match guarded(|| (truth_table(&pf3.eval(), &cols), well_formed(&pf3.eval(), None))) {
                                Ok((tt3, wf3)) => {
                                    let mut f3: Vec<String> = pf3.free_vars.iter().map(|v| v.name.as_ref().clone()).collect();
                                    f3.sort();
                                    let mut f1: Vec<String> = pf.free_vars.iter().map(|v| v.name.as_ref().clone()).collect();
                                    f1.sort();
                                    let mut n3: Vec<String> = pf3.vars.iter().map(|v| v.name.as_ref().clone()).collect();
                                    n3.sort();
                                    let mut n1 = names.clone();
                                    n1.sort();
                                    if Some(&tt3) != base.as_ref() || !wf3 || f3 != f1 || n3 != n1 {
                                        Some(json!({"tt": tt3, "scheme": "repeated name", "ok": wf3 && f3 == f1 && n3 == n1}))
                                    } else {
                                        None
                                    }
                                }
                                Err(msg) => Some(json!({"panic": msg, "scheme": "repeated name"})),
                            },
                            _ => Some(json!({"panic": "API parse failed", "scheme": "repeated name"})),
                        };
                        if let Some(d) = dup {
                            api = d;
                        }
                    }
                }
                json!({"parse_ok": true, "names": names, "ast": rename(&tree_json(&pf.bdd), &m), "api": api,
                       "free": pf.free_vars.iter().map(|v| v.name.as_ref().clone()).collect::<Vec<_>>()})
            }
            Ok(Err(e)) => json!({"parse_ok": false, "error": e.to_string()}),
            Err(msg) => json!({"parse_ok": false, "panic": msg}),
        };
        writeln!(out, "{}", rec).ok();
        n += 1;
    }
    out.flush().ok();
    json!({"summary": {"items": n}})
}

/// gen-formulas <out.json> <count> <max_names>: random (monotone fixed point) formula texts
pub fn gen_formulas(args: &[String]) -> Value {
    let count: usize = args[1].parse().expect("count");
    let max_names: usize = args[2].parse().expect("max_names");
    let mut r = rng(73);
    let mut texts = vec![];
    while texts.len() < count {
        let k = r.gen_range(1..=max_names);
        let mut names: Vec<&'static str> = vec![];
        while names.len() < k {
            let n = POOL[r.gen_range(0..POOL.len())];
            if !names.contains(&n) {
                names.push(n);
            }
        }
        let depth = r.gen_range(1..=4);
        let text = {
            let mut g = Gen { r: &mut r, names };
            g.formula(depth, &Scope { fix: HashMap::new() })
        };
        if let Ok(Ok(pf)) = parse(&text, None) {
            if pf.vars.len() <= max_names {
                texts.push(text);
            }
        }
    }
    std::fs::write(&args[0], json!(texts).to_string()).expect("write");
    json!({"summary": {"texts": texts.len()}})
}

/// dot-cases <out.ndjson> <nv> <mode>: library-level Graphviz exports.
///   every diagram over nv variables (names that need escaping) x 3 filters -> "dotbdd" records
///   parse trees of random formulas -> "dottree" records
pub fn dot_cases(args: &[String]) -> Value {
    use rsbdd::bdd::BDDEnv;
    use rsbdd::bdd_io::BDDGraph;
    use rsbdd::parser_io::SymbolicParseTree;
    use rsbdd::{NamedSymbol, TruthTableEntry};
    let nv: usize = args[1].parse().expect("nv");
    let trees: usize = args[2].parse().expect("trees");
    let mut r = rng(79);
    let mut out = std::io::BufWriter::new(std::fs::File::create(&args[0]).expect("create"));
    let pool = ["a'", "\u{e9}t\u{e9}", "x_1", "Q", "v'9", "zz"];
    let names: Vec<String> = pool[..nv].iter().map(|s| s.to_string()).collect();
    let syms: Vec<NamedSymbol> = names.iter().enumerate().map(|(i, n)| NamedSymbol { name: Rc::new(n.clone()), id: 2 + 3 * i }).collect();
    let env: BDDEnv<NamedSymbol> = BDDEnv::new();
    let mut cur = vec![env.mk_const(false), env.mk_const(true)];
    for v in (0..nv).rev() {
        let mut next = cur.clone();
        for h in &cur {
            for l in &cur {
                if h != l {
                    next.push(env.mk_choice(Rc::clone(h), syms[v].clone(), Rc::clone(l)));
                }
            }
        }
        cur = next;
    }
    let (mut nb, mut nt) = (0u64, 0u64);
    let step = if cur.len() > 5000 { cur.len() / 3000 } else { 1 };
    for (i, b) in cur.iter().enumerate() {
        if i % step != 0 {
            continue;
        }
        for (fname, f) in [("Any", TruthTableEntry::Any), ("True", TruthTableEntry::True), ("False", TruthTableEntry::False)] {
            let mut buf: Vec<u8> = vec![];
            let ok = guarded(|| BDDGraph::new(b, f).render_dot(&mut buf).is_ok());
            let rec = match ok {
                Ok(true) => json!({"k": "dotbdd", "dot_text": String::from_utf8_lossy(&buf), "tt": truth_table(b, &names), "filter": fname, "names": names}),
                _ => json!({"k": "outcome", "panic": "render_dot failed", "tt": truth_table(b, &names)}),
            };
            writeln!(out, "{}", rec).ok();
            nb += 1;
        }
    }
    while (nt as usize) < trees {
        let k = r.gen_range(1..=4);
        let mut ns: Vec<&'static str> = vec![];
        while ns.len() < k {
            let n = POOL[r.gen_range(0..POOL.len())];
            if !ns.contains(&n) {
                ns.push(n);
            }
        }
        let depth = r.gen_range(1..=4);
        let text = {
            let mut g = Gen { r: &mut r, names: ns };
            g.formula(depth, &Scope { fix: HashMap::new() })
        };
        // two list-versus-list comparisons with the same operands in the same order but split at different places
        // (they differ only in which edge leads to which operand)
        let text = if r.gen_bool(0.15) {
            let items: Vec<String> = (0..r.gen_range(2..=4)).map(|_| POOL[r.gen_range(0..5)].to_string()).collect();
            let i = r.gen_range(0..=items.len());
            let mut j = r.gen_range(0..=items.len());
            if j == i {
                j = (i + 1) % (items.len() + 1);
            }
            let op = ["=", "<=", ">=", "<", ">"][r.gen_range(0..5)];
            let side = |a: &[String]| format!("[{}]", a.join(", "));
            format!("({} {} {}) {} ({} {} {}) & {}", side(&items[..i]), op, side(&items[i..]), ["&", "|", "^"][r.gen_range(0..3)],
                    side(&items[..j]), op, side(&items[j..]), text)
        } else {
            text
        };
        // repeated sub-terms on purpose
        let text = if r.gen_bool(0.4) { format!("({}) & ({}) | [{}, {}] = 1", text, text, text, text) } else { text };
        if let Ok(Ok(pf)) = parse(&text, None) {
            let mut buf: Vec<u8> = vec![];
            let ok = guarded(|| SymbolicParseTree::new(&pf.bdd).render_dot(&mut buf).is_ok());
            let rec = match ok {
                Ok(true) => json!({"k": "dottree", "dot_text": String::from_utf8_lossy(&buf), "tree": tree_json(&pf.bdd), "text": text}),
                _ => json!({"k": "outcome", "panic": "render_dot failed", "text": text}),
            };
            writeln!(out, "{}", rec).ok();
            nt += 1;
        }
    }
    out.flush().ok();
    json!({"summary": {"bdd_exports": nb, "tree_exports": nt, "nv": nv}})
}

/// parse-ast <file>...: the real parser's tree for each file (generator outputs), names by id
/// dot-big <outdir> <nv> <count>: large random diagrams (tens of thousands of nodes) exported with BDDGraph; the diagram itself
/// is written as index arrays (no nesting) so that the orchestrator can compare the exported graph with it node for node.
pub fn dot_big(args: &[String]) -> Value {
    use rsbdd::bdd::{BDDEnv, BDD};
    use rsbdd::bdd_io::BDDGraph;
    use rsbdd::{NamedSymbol, TruthTableEntry};
    let dir = &args[0];
    let nv: usize = args[1].parse().expect("nv");
    let count: usize = args[2].parse().expect("count");
    let salt: u64 = args.get(3).map(|x| x.parse().expect("salt")).unwrap_or(0);
    let mut r = rng(83 + 1000 * salt);
    let mut sizes = vec![];
    for c in 0..count {
        let env: BDDEnv<NamedSymbol> = BDDEnv::new();
        let syms: Vec<NamedSymbol> = (0..nv).map(|i| NamedSymbol { name: Rc::new(format!("x{}", i)), id: i }).collect();
        fn build(env: &rsbdd::bdd::BDDEnv<rsbdd::NamedSymbol>, syms: &[rsbdd::NamedSymbol], level: usize, r: &mut StdRng) -> Rc<rsbdd::bdd::BDD<rsbdd::NamedSymbol>> {
            if level == syms.len() {
                return env.mk_const(r.gen_bool(0.5));
            }
            let h = build(env, syms, level + 1, r);
            let l = build(env, syms, level + 1, r);
            env.mk_choice(h, syms[level].clone(), l)
        }
        let root = build(&env, &syms, 0, &mut r);
        // index the distinct nodes by address (the environment hash-conses them)
        let mut index: HashMap<*const BDD<NamedSymbol>, i64> = HashMap::new();
        let (mut var, mut hi, mut lo): (Vec<String>, Vec<i64>, Vec<i64>) = (vec![], vec![], vec![]);
        fn walk(n: &Rc<BDD<NamedSymbol>>, index: &mut HashMap<*const BDD<NamedSymbol>, i64>, var: &mut Vec<String>, hi: &mut Vec<i64>, lo: &mut Vec<i64>) -> i64 {
            match n.as_ref() {
                BDD::False => -1,
                BDD::True => -2,
                BDD::Choice(t, s, f) => {
                    if let Some(i) = index.get(&Rc::as_ptr(n)) {
                        return *i;
                    }
                    let a = walk(t, index, var, hi, lo);
                    let b = walk(f, index, var, hi, lo);
                    let i = var.len() as i64;
                    var.push(s.name.as_ref().clone());
                    hi.push(a);
                    lo.push(b);
                    index.insert(Rc::as_ptr(n), i);
                    i
                }
            }
        }
        let root_ix = walk(&root, &mut index, &mut var, &mut hi, &mut lo);
        sizes.push(var.len());
        for (fname, f) in [("Any", TruthTableEntry::Any), ("True", TruthTableEntry::True), ("False", TruthTableEntry::False)] {
            if (c > 0 || salt > 0) && fname != "Any" {
                continue;
            }
            let mut buf: Vec<u8> = vec![];
            let ok = guarded(|| BDDGraph::new(&root, f).render_dot(&mut buf).is_ok());
            let status = matches!(ok, Ok(true));
            std::fs::write(format!("{}/big_{}_{}_{}.dot", dir, salt, c, fname), &buf).expect("write dot");
            std::fs::write(
                format!("{}/big_{}_{}_{}.json", dir, salt, c, fname),
                json!({"ok": status, "filter": fname, "root": root_ix, "var": var, "hi": hi, "lo": lo,
                       "order": syms.iter().map(|s| s.name.as_ref().clone()).collect::<Vec<_>>()}).to_string(),
            )
            .expect("write json");
        }
    }
    json!({"summary": {"diagrams": count, "nv": nv, "test_nodes": sizes}})
}

pub fn parse_ast(args: &[String]) -> Value {
    let mut n = 0;
    for f in args {
        let text = std::fs::read_to_string(f).unwrap_or_default();
        let rec = match parse(&text, None) {
            Ok(Ok(pf)) => json!({"file": f, "ok": true, "tree": tree_json(&pf.bdd),
                                  "names": pf.vars.iter().map(|v| v.name.as_ref().clone()).collect::<Vec<_>>(),
                                  "free": pf.free_vars.iter().map(|v| v.name.as_ref().clone()).collect::<Vec<_>>()}),
            Ok(Err(e)) => json!({"file": f, "ok": false, "error": e.to_string()}),
            Err(m) => json!({"file": f, "ok": false, "panic": m}),
        };
        println!("{}", json!({"mismatch": rec}));
        n += 1;
    }
    json!({"summary": {"files": n}})
}
