//! Shared helpers: JSON <-> diagram conversion, symbol injection, panic capture.
use std::collections::HashMap;
use std::panic::{catch_unwind, AssertUnwindSafe};
use std::rc::Rc;

use rand::rngs::StdRng;
use rand::{Rng, SeedableRng};
use rsbdd::bdd::{BDDEnv, BDD};
use serde_json::{json, Value};

pub type Node = Rc<BDD<usize>>;

pub fn seed_from_env() -> u64 {
    std::env::var("VERIF_SEED")
        .ok()
        .and_then(|s| s.parse::<u64>().ok())
        .unwrap_or(1)
}

pub fn rng(salt: u64) -> StdRng {
    StdRng::seed_from_u64(seed_from_env().wrapping_mul(0x9E37_79B9_7F4A_7C15).wrapping_add(salt))
}

/// Order-preserving injection of the spec's variables 1..=n into non-adjacent usize symbols.
/// Index 0 is unused.
pub fn injection(n: usize, rng: &mut StdRng) -> Vec<usize> {
    let mut out = vec![0usize; n + 1];
    let mut cur = rng.gen_range(0..4usize);
    for item in out.iter_mut().skip(1) {
        cur += rng.gen_range(1..5usize);
        *item = cur;
    }
    out
}

pub fn inverse(map: &[usize]) -> HashMap<usize, usize> {
    map.iter().enumerate().skip(1).map(|(i, s)| (*s, i)).collect()
}

/// Build a diagram inside a real environment, bottom-up with mk_choice.
pub fn build_env(env: &BDDEnv<usize>, n: &Value, map: &[usize]) -> Node {
    let a = n.as_array().expect("node must be an array");
    if a.len() == 1 {
        env.mk_const(a[0].as_u64() == Some(1))
    } else {
        let v = a[0].as_u64().expect("var") as usize;
        let hi = build_env(env, &a[1], map);
        let lo = build_env(env, &a[2], map);
        env.mk_choice(hi, map[v], lo)
    }
}

/// Build the same structure as a plain value, no environment involved.
pub fn build_plain(n: &Value, map: &[usize]) -> Node {
    let a = n.as_array().expect("node must be an array");
    if a.len() == 1 {
        Rc::new(if a[0].as_u64() == Some(1) { BDD::True } else { BDD::False })
    } else {
        let v = a[0].as_u64().expect("var") as usize;
        Rc::new(BDD::Choice(build_plain(&a[1], map), map[v], build_plain(&a[2], map)))
    }
}

pub fn to_json(b: &BDD<usize>, inv: &HashMap<usize, usize>) -> Value {
    match b {
        BDD::False => json!([0]),
        BDD::True => json!([1]),
        BDD::Choice(t, v, f) => {
            // a symbol the spec does not know is logged as an out-of-range number (rejected by IsNode)
            let vv = inv.get(v).map(|x| json!(*x)).unwrap_or_else(|| json!(100_000 + *v));
            json!([vv, to_json(t, inv), to_json(f, inv)])
        }
    }
}

/// Run f, turning a panic into Err(message).  A panic of the code under test is data.
pub fn guarded<T, F: FnOnce() -> T>(f: F) -> Result<T, String> {
    catch_unwind(AssertUnwindSafe(f)).map_err(|e| {
        if let Some(s) = e.downcast_ref::<&str>() {
            (*s).to_string()
        } else if let Some(s) = e.downcast_ref::<String>() {
            s.clone()
        } else {
            "panic".to_string()
        }
    })
}

pub fn silence_panics() {
    std::panic::set_hook(Box::new(|_| {}));
}

pub fn read_json(path: &std::path::Path) -> Value {
    let s = std::fs::read_to_string(path).unwrap_or_else(|e| panic!("read {}: {}", path.display(), e));
    serde_json::from_str(&s).unwrap_or_else(|e| panic!("parse {}: {}", path.display(), e))
}

pub fn idx(v: &Value) -> usize {
    v.as_u64().expect("index") as usize
}
