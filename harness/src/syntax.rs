//! C08: the real tokenizer / parser against MC_Syntax (token-level universe, character-level strings).
use std::collections::HashMap;

use rand::Rng;
use rsbdd::parser::SymbolicBDD;
use serde_json::{json, Value};

use crate::lang::*;
use crate::util::*;

/// the reduced token alphabet, in the order of MC_Syntax!Sigma
fn sigma() -> Vec<Value> {
    vec![
        json!(["var", "a"]), json!(["var", "b"]), json!(["num", 1]), json!(["not"]), json!(["and"]), json!(["impliesinv"]),
        json!(["eq"]), json!(["if"]), json!(["then"]), json!(["else"]), json!(["exists"]), json!(["lfp"]), json!(["hash"]),
        json!(["("]), json!([")"]), json!(["["]), json!(["]"]), json!([","]), json!(["true"]), json!(["ref", "r"]),
    ]
}

/// another member of the same token class (same grammatical role)
fn member(t: &Value, r: &mut rand::rngs::StdRng) -> Value {
    let mut pick = |xs: &[&str]| -> Value {
        let x = xs[r.gen_range(0..xs.len())];
        json!([x])
    };
    match t[0].as_str().expect("kind") {
        "num" => {
            let n = r.gen_range(0..4);
            json!(["num", n])
        }
        "and" => pick(&["and", "or", "xor", "nor", "nand", "implies", "iff"]),
        "eq" => pick(&["eq", "geq", "gt", "lt"]),
        "exists" => pick(&["exists", "forall"]),
        "lfp" => pick(&["lfp", "gfp"]),
        "true" => pick(&["true", "false"]),
        _ => t.clone(),
    }
}

/// tree with the members of a class identified (see MC_Syntax / DESIGN C08)
fn skeleton(t: &Value) -> Value {
    let a = t.as_array().expect("tree");
    let list = |v: &Value| Value::Array(v.as_array().expect("list").iter().map(skeleton).collect());
    match a[0].as_str().expect("kind") {
        "true" | "false" => json!(["CONST"]),
        "var" | "ref" => t.clone(),
        "not" => json!(["not", skeleton(&a[1])]),
        "bin" => json!(["bin", if a[1] == "impliesinv" { "impliesinv" } else { "BIN" }, skeleton(&a[2]), skeleton(&a[3])]),
        "ite" => json!(["ite", skeleton(&a[1]), skeleton(&a[2]), skeleton(&a[3])]),
        "q" => json!(["q", "Q", a[2], skeleton(&a[3])]),
        "cc" => json!(["cc", if a[1] == "atmost" { "atmost" } else { "CMP" }, list(&a[2]), "N"]),
        "cv" => json!(["cv", if a[1] == "atmost" { "atmost" } else { "CMP" }, list(&a[2]), list(&a[3])]),
        "fix" => json!(["fix", a[1], "INIT", skeleton(&a[3])]),
        _ => t.clone(),
    }
}

fn outcome(text: &str) -> Result<Option<SymbolicBDD>, String> {
    match parse(text, None) {
        Err(m) => Err(m),
        Ok(Err(_)) => Ok(None),
        Ok(Ok(pf)) => Ok(Some(pf.bdd)),
    }
}

/// replay-tokens <accepted.ndjson> <maxlen>
pub fn replay_tokens(args: &[String]) -> Value {
    let maxlen: usize = args[1].parse().expect("maxlen");
    let sig = sigma();
    let mut accepted: HashMap<Vec<usize>, Value> = HashMap::new();
    for line in std::fs::read_to_string(&args[0]).expect("read").lines().filter(|l| !l.trim().is_empty()) {
        let v: Value = serde_json::from_str(line).expect("json");
        let s: Vec<usize> = v["s"].as_array().expect("s").iter().map(idx).collect();
        if s.len() <= maxlen {
            accepted.insert(s, v["t"].clone());
        }
    }
    let mut r = rng(71);
    let (mut seqs, mut mism, mut panics, mut acc_real) = (0u64, 0u64, 0u64, 0u64);
    let mut samples = vec![];
    let n = sig.len();
    let mut seq: Vec<usize> = vec![];
    // odometer over all sequences of length 0..=maxlen
    loop {
        seqs += 1;
        let toks: Vec<Value> = seq.iter().map(|i| sig[*i - 1].clone()).collect();
        let exp = accepted.get(&seq);
        // A: representatives, plain spelling -> exact tree
        let text_a = spell(&toks, &mut r, true);
        let got_a = outcome(&text_a);
        // B: random members, random spelling and layout -> acceptance and tree skeleton
        let toks_b: Vec<Value> = toks.iter().map(|t| member(t, &mut r)).collect();
        let text_b = spell(&toks_b, &mut r, false);
        let got_b = outcome(&text_b);
        for (variant, text, got) in [("A", &text_a, &got_a), ("B", &text_b, &got_b)] {
            let bad = match (got, exp) {
                (Err(_), _) => {
                    panics += 1;
                    Some("panic")
                }
                (Ok(None), None) => None,
                (Ok(Some(_)), None) => Some("accepted a text that is not a sentence"),
                (Ok(None), Some(_)) => Some("rejected a sentence"),
                (Ok(Some(t)), Some(e)) => {
                    let tj = tree_json(t);
                    let same = if variant == "A" { &tj == e } else { skeleton(&tj) == skeleton(e) };
                    if same {
                        None
                    } else {
                        Some("tree differs from the grammar's")
                    }
                }
            };
            if let Some(why) = bad {
                mism += 1;
                if mism <= 300 {
                    println!("{}", json!({"mismatch": {"tag": why, "prop": if why == "panic" { "C12" } else { "C08" }, "text": text, "seq": seq,
                        "detail": {"expected": exp, "got": match got { Ok(Some(t)) => tree_json(t), Ok(None) => json!("rejected"), Err(m) => json!({"panic": m}) }}}}));
                }
            }
        }
        if matches!(got_a, Ok(Some(_))) {
            acc_real += 1;
        }
        if samples.len() < 4 && seqs % 39_119 == 17 {
            samples.push(json!({"tokens": seq, "text": text_b, "sentence": exp.is_some()}));
        }
        // next
        if seq.len() < maxlen {
            seq.push(1);
        } else {
            loop {
                match seq.pop() {
                    None => {
                        return json!({"summary": {"sequences": seqs, "mismatches": mism, "panics": panics, "sentences": accepted.len(),
                                                   "accepted_by_code": acc_real, "alphabet": n, "maxlen": maxlen, "samples": samples}});
                    }
                    Some(k) if k < n => {
                        seq.push(k + 1);
                        break;
                    }
                    Some(_) => {}
                }
            }
        }
    }
}

/// one "text" record for Trace_Lang: characters, real token list and parse outcome
pub fn text_record(text: &str) -> Value {
    let chars: Vec<String> = text.chars().map(|c| c.to_string()).collect();
    let t = text.to_string();
    let tk = guarded(move || {
        let mut rd = std::io::BufReader::new(t.as_bytes());
        SymbolicBDD::tokenize(&mut rd, None)
    });
    let (tok_ok, toks) = match &tk {
        Err(m) => return json!({"k": "outcome", "text": text, "panic": m, "stage": "tokenize"}),
        Ok(Err(_)) => (false, vec![]),
        Ok(Ok(ts)) => (true, ts.iter().map(token_json).collect::<Vec<_>>()),
    };
    match outcome(text) {
        Err(m) => json!({"k": "outcome", "text": text, "panic": m, "stage": "parse"}),
        Ok(None) => json!({"k": "text", "text": text, "chars": chars, "tok_ok": tok_ok, "toks": toks, "parse_ok": false, "tree": []}),
        Ok(Some(t)) => json!({"k": "text", "text": text, "chars": chars, "tok_ok": tok_ok, "toks": toks, "parse_ok": true, "tree": tree_json(&t)}),
    }
}

/// replay-chars <strings.ndjson>: TLC's token lists for piece strings against the real tokenizer
pub fn replay_chars(args: &[String]) -> Value {
    let (mut n, mut mism, mut panics, mut rejected) = (0u64, 0u64, 0u64, 0u64);
    let mut samples = vec![];
    for line in std::fs::read_to_string(&args[0]).expect("read").lines().filter(|l| !l.trim().is_empty()) {
        let v: Value = serde_json::from_str(line).expect("json");
        n += 1;
        let text: String = v["c"].as_array().expect("c").iter().map(|c| c.as_str().expect("char")).collect();
        let rec = text_record(&text);
        let exp_ok = v["ok"].as_bool().expect("ok");
        if !exp_ok {
            rejected += 1;
        }
        let bad = if rec["k"] == "outcome" {
            panics += 1;
            Some(("panic", "C12"))
        } else if rec["tok_ok"].as_bool() != Some(exp_ok) {
            Some(("tokenizer Ok/Err differs", "C08"))
        } else if exp_ok && rec["toks"] != v["toks"] {
            Some(("token list differs", "C08"))
        } else {
            None
        };
        if let Some((why, prop)) = bad {
            mism += 1;
            if mism <= 300 {
                println!("{}", json!({"mismatch": {"tag": why, "prop": prop, "text": text,
                    "detail": {"expected": {"ok": exp_ok, "toks": v["toks"]}, "got": rec}}}));
            }
        }
        if samples.len() < 4 && n % 9973 == 11 {
            samples.push(json!({"text": text, "tokens": v["toks"]}));
        }
    }
    json!({"summary": {"strings": n, "mismatches": mism, "panics": panics, "spec_rejects": rejected, "samples": samples}})
}
