//! C19: BDDSet against BddSet.tla.  Observation is only through the public contains().
use std::io::Write;
use std::rc::Rc;

use rand::Rng;
use rsbdd::bdd::BDDEnv;
use rsbdd::set::BDDSet;
use serde_json::{json, Value};

use crate::util::*;

struct Two {
    a: BDDSet,
    b: BDDSet,
    bits: usize,
}

impl Two {
    fn new(bits: usize) -> Self {
        let env = Rc::new(BDDEnv::new());
        Self { a: BDDSet::with_env(bits, &env), b: BDDSet::with_env(bits, &env), bits }
    }
    fn get(&self, x: &str) -> &BDDSet {
        if x == "A" {
            &self.a
        } else {
            &self.b
        }
    }
    /// membership vector of one set through contains(); a panic is reported as None
    fn members(&self, x: &str) -> Option<Vec<bool>> {
        let s = self.get(x);
        guarded(|| (0..(1usize << self.bits)).map(|e| s.contains(e)).collect()).ok()
    }
    /// apply one operation; Ok(returned bool) or Err(panic message)
    fn apply(&self, op: &str, x: &str, y: &str, e: usize) -> Result<bool, String> {
        let sx = self.get(x);
        let sy = self.get(y);
        guarded(|| match op {
            "insert" => {
                sx.insert(e);
                false
            }
            "contains" => sx.contains(e),
            "union" => {
                sx.union(sy);
                false
            }
            "intersect" => {
                sx.intersect(sy);
                false
            }
            "complement" => {
                sx.complement(sy);
                false
            }
            "empty" => {
                sx.empty();
                false
            }
            "universe" => {
                sx.universe();
                false
            }
            other => panic!("harness: unknown set op {}", other),
        })
    }
}

fn vec_of(v: &Value, n: usize) -> Vec<bool> {
    let mut out = vec![false; n];
    for e in v.as_array().expect("set") {
        out[idx(e)] = true;
    }
    out
}

/// replay-set <table.json>: every transition of the abstract machine on the real BDDSet
pub fn replay(args: &[String]) -> Value {
    let t = read_json(std::path::Path::new(&args[0]));
    let bits = idx(&t["bits"]);
    let n = 1usize << bits;
    let (mut cases, mut mism, mut panics) = (0u64, 0u64, 0u64);
    let mut samples = vec![];
    for st in t["cases"].as_array().expect("cases") {
        for tr in st["t"].as_array().expect("t") {
            cases += 1;
            let two = Two::new(bits);
            let mut setup_ok = true;
            for (name, key) in [("A", "A"), ("B", "B")] {
                for e in st[key].as_array().expect("elems") {
                    if two.apply("insert", name, "-", idx(e)).is_err() {
                        setup_ok = false;
                    }
                }
            }
            let (op, x, y, e) = (tr["op"].as_str().expect("op"), tr["x"].as_str().expect("x"), tr["y"].as_str().expect("y"), idx(&tr["e"]));
            let ret = two.apply(op, x, if y == "-" { x } else { y }, e);
            let (a1, b1) = (two.members("A"), two.members("B"));
            let (a2, b2) = (two.members("A"), two.members("B"));
            let (ea, eb) = (vec_of(&tr["A2"], n), vec_of(&tr["B2"], n));
            let mut why = vec![];
            if !setup_ok {
                why.push("insert panicked while reaching the source state");
            }
            match &ret {
                Err(_) => {
                    panics += 1;
                    why.push("operation panicked")
                }
                Ok(r) => {
                    if op == "contains" && *r != tr["ret"].as_bool().expect("ret") {
                        why.push("contains returned the wrong answer")
                    }
                }
            }
            if a1.as_ref() != Some(&ea) || b1.as_ref() != Some(&eb) {
                why.push("membership differs from the reference set");
            } else if a2.as_ref() != Some(&ea) || b2.as_ref() != Some(&eb) {
                why.push("a query changed the set");
            }
            if !why.is_empty() {
                mism += 1;
                println!("{}", json!({"mismatch": {"A": st["A"], "B": st["B"], "op": op, "x": x, "y": y, "e": e, "why": why,
                    "expected": {"A": tr["A2"], "B": tr["B2"], "ret": tr["ret"]},
                    "got": {"ret": ret.clone().map(|b| json!(b)).unwrap_or_else(|m| json!({"panic": m})), "A": a1, "B": b1, "A_again": a2, "B_again": b2}}}));
            }
            if samples.len() < 3 && cases % 1733 == 5 {
                samples.push(json!({"A": st["A"], "B": st["B"], "op": op, "x": x, "y": y, "e": e}));
            }
        }
    }
    json!({"summary": {"cases": cases, "mismatches": mism, "panics": panics, "bits": bits, "samples": samples}})
}

fn event(two: &Two, op: &str, x: &str, y: &str, e: usize) -> Value {
    let ret = two.apply(op, x, if y == "-" { x } else { y }, e);
    let (a1, b1) = (two.members("A"), two.members("B"));
    let (a2, b2) = (two.members("A"), two.members("B"));
    match (ret, a1, b1, a2, b2) {
        (Ok(r), Some(a1), Some(b1), Some(a2), Some(b2)) => {
            json!({"k": "op", "op": op, "x": x, "y": y, "e": e, "ret": r, "memA1": a1, "memB1": b1, "memA2": a2, "memB2": b2})
        }
        (r, _, _, _, _) => json!({"k": "op", "op": op, "x": x, "y": y, "e": e, "panic": r.err().unwrap_or_else(|| "contains panicked".into())}),
    }
}

/// record-set <out.ndjson> <bits> <histories> <ops>
pub fn record(args: &[String]) -> Value {
    let bits: usize = args[1].parse().expect("bits");
    let histories: usize = args[2].parse().expect("histories");
    let ops: usize = args[3].parse().expect("ops");
    let mut r = rng(41);
    let mut out = std::io::BufWriter::new(std::fs::File::create(&args[0]).expect("create"));
    let (mut events, mut panics, mut alias) = (0u64, 0u64, 0u64);
    for _ in 0..histories {
        let two = Two::new(bits);
        writeln!(out, "{}", json!({"k": "reset"})).ok();
        events += 1;
        for _ in 0..ops {
            let x = ["A", "B"][r.gen_range(0..2)];
            let y = ["A", "B"][r.gen_range(0..2)];
            let e = r.gen_range(0..(1usize << bits));
            let (op, yy, ee) = match r.gen_range(0..12) {
                0..=3 => ("insert", "-", e),
                4 | 5 => ("contains", "-", e),
                6 | 7 => ("union", y, 0),
                8 => ("intersect", y, 0),
                9 => ("complement", y, 0),
                10 => (if r.gen_bool(0.7) { "empty" } else { "universe" }, "-", 0),
                _ => ("intersect", y, 0),
            };
            if yy == x {
                alias += 1;
            }
            let ev = event(&two, op, x, yy, ee);
            let dead = ev.get("panic").is_some();
            writeln!(out, "{}", ev).ok();
            events += 1;
            if dead {
                panics += 1;
                break;
            }
        }
    }
    out.flush().ok();
    json!({"summary": {"events": events, "histories": histories, "panics": panics, "self_aliasing_ops": alias, "bits": bits}})
}

/// exec-set <calls.json> <out.ndjson> <bits>
pub fn exec(args: &[String]) -> Value {
    let bits: usize = args[2].parse().expect("bits");
    let calls = read_json(std::path::Path::new(&args[0]));
    let mut out = std::io::BufWriter::new(std::fs::File::create(&args[1]).expect("create"));
    let two = Two::new(bits);
    writeln!(out, "{}", json!({"k": "reset"})).ok();
    let mut events = 1;
    for c in calls.as_array().expect("calls") {
        let ev = event(&two, c["op"].as_str().expect("op"), c["x"].as_str().expect("x"), c["y"].as_str().expect("y"), idx(&c["e"]));
        let dead = ev.get("panic").is_some();
        writeln!(out, "{}", ev).ok();
        events += 1;
        if dead {
            break;
        }
    }
    out.flush().ok();
    json!({"summary": {"events": events}})
}
